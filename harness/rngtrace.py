"""Tracing of every random draw, seed call, pre-drawn variate and path boundary of a pricing run — from the harness, by
wrapping (no change to /repo).  Events are appended as JSON lines to one file per process id under a directory (forked
pathos workers inherit the wrappers and write their own files).

Token semantics (same as lean/RpylibModel/Model/Rng.lean): a draw of `n` scalars from library `lib` in generator state
`src` at position `pos` consumes tokens (lib, src, pos … pos+n-1); `seed(s)` puts the generator in state ("s", s) at
position 0 whatever it did before; a process that has never seeded is in state ("a", pid) (main process) or in the state
("inh", 0) it inherited from its parent (worker processes: two workers drawing from it draw the same variates).

The tracer is independent of HOW the library stores and hands out its pre-drawn variates.  What it relies on:
 * the PUBLIC process API: `pre_computation(mc_paths, product)` (every variate drawn inside it is a pre-drawn one),
   `simulate_one_path()` / `simulate_one_path_with_coupling()` (path boundaries; the returned path's `times()`,
   `value_jump()` and `diffusion_path`), `intensity()`, `dimension()`, `product.times_grid()`;
 * every draw is logged with the function name and the VALUES returned.
Which pre-drawn scalars a path consumes is learnt through four channels, none of which names a private attribute:
 A "container": after `pre_computation` the object graph below the process is searched for the innermost physical stores
   (deque / list / ndarray, at any depth, under any name, inside any holder object) whose numeric content IS the values just
   drawn; each is replaced by a logging subclass of its own type (popleft/pop/indexing/iteration report the rows and
   values they hand out).  Iterators / generators created during the pre-computation are wrapped by a logging iterator.
 B "arg": the arrays reaching the library's module-level `simulate_diffusion_with_brownian_increments` (where it exists).
 C "path": the increments of the diffusion component of the returned paths, matched against the pre-drawn normals up to
   one unknown scale per date (the standard deviation) — used when neither A nor B saw a Brownian variate reach a path,
   cross-checked against them otherwise.
 Normal variates are identified BY VALUE (continuous values are unique); jump counts by their position in the store
 (arrangement of the drawn counts in the store inferred from the values).
 D degraded mode: when no channel can observe a consumption, the analysis says so (`notes`, `unobserved`) and the caller
   judges only seeds, counts, seeded repeats and the value-level oracles — the tracer itself never raises into the run."""
from __future__ import annotations

import copy
import hashlib
import json
import os
import random as pyrandom
import sys
from collections import deque
from contextlib import contextmanager
from pathlib import Path

import numpy as np

_DIR = {"path": None}
_BATCH = {"n": 0, "nb": 1, "grid": None, "pre_normals": 0}
_PRE = {"depth": 0, "f": None, "i": None}
_PATH = {"depth": 0}
_FH = {}


def _log(ev):
    d = _DIR["path"]
    if d is None:
        return
    key = (d, os.getpid())
    fh = _FH.get(key)
    if fh is None:
        fh = _FH[key] = open(os.path.join(d, f"log.{key[1]}"), "a")
    fh.write(json.dumps(ev) + "\n")
    fh.flush()                   # workers are killed by pool.terminate(): nothing may stay in a buffer (nor be inherited by a fork)


def _tracer_error(where, e):
    try:
        _log({"e": "tracer_error", "where": where, "what": f"{type(e).__name__}: {e}"[:300]})
    except Exception:
        pass


def _vals(x):
    """numeric content of whatever a draw / a container hands out -> (kind 'f' | 'i' | None, flat python list)"""
    try:
        a = np.asarray(x)
        if a.dtype == object:
            a = np.asarray([v for r in x for v in np.asarray(r).ravel()])
        if a.dtype.kind in "iub":
            return "i", [int(v) for v in a.ravel()]
        if a.dtype.kind == "f":
            return "f", [float(v) for v in a.ravel()]
    except Exception:
        pass
    return None, []


# ------------------------------------------------------------------------------------------------ logging stores (channel A)
def _hand(label, rows, item):
    """one hand-out of a labelled store: which rows (positions in the store as it was after the pre-computation; None if
    unknown) and which values"""
    try:
        if label is None:
            return
        kind, vals = _vals(item)
        _log({"e": "hand", "ch": "cont", "q": label[0], "batch": label[1], "rows": rows, "k": kind, "v": vals})
    except Exception as e:  # noqa
        _tracer_error("hand", e)


class LogDeque(deque):
    """deque of pre-drawn rows that logs which row (of which batch) every popleft / pop / indexing hands out"""

    def __init__(self, items=(), kind="?", batch=-1):
        super().__init__(items)
        self.kind, self.batch, self.popped, self.exact = kind, batch, 0, True

    def _row(self, i):
        return [self.popped + i] if self.exact else None

    def popleft(self):
        item = super().popleft()
        _hand((self.kind, self.batch), self._row(0), item)
        self.popped += 1
        return item

    def __getitem__(self, i):
        # a row read without being removed is a consumption of that row as well
        item = super().__getitem__(i)
        if isinstance(i, int):
            _hand((self.kind, self.batch), self._row(i if i >= 0 else len(self) + i), item)
        return item

    def pop(self):
        item = super().pop()
        _hand((self.kind, self.batch), self._row(len(self)), item)
        return item

    def __iter__(self):
        for k, item in enumerate(super().__iter__()):
            _hand((self.kind, self.batch), self._row(k), item)
            yield item

    def rotate(self, n=1):
        self.exact = False
        return super().rotate(n)

    def __reduce__(self):
        return (_rebuild_logdeque, (list(deque.__iter__(self)), self.kind, self.batch, self.popped, self.exact))

    def __deepcopy__(self, memo):
        return _rebuild_logdeque(copy.deepcopy(list(deque.__iter__(self)), memo), self.kind, self.batch, self.popped, self.exact)

    def __copy__(self):
        return _rebuild_logdeque(list(deque.__iter__(self)), self.kind, self.batch, self.popped, self.exact)


def _rebuild_logdeque(items, kind, batch, popped, exact=True):
    d = LogDeque(items, kind, batch)
    d.popped, d.exact = popped, exact
    return d


class LogList(list):
    """list of pre-drawn rows: indexing, pop, iteration report what they hand out"""

    def __init__(self, items=(), kind="?", batch=-1):
        super().__init__(items)
        self.kind, self.batch, self.popped, self.exact = kind, batch, 0, True

    def _rows(self, idx):
        return [self.popped + int(i) for i in idx] if self.exact else None

    def __getitem__(self, i):
        item = list.__getitem__(self, i)
        n = list.__len__(self)
        if isinstance(i, slice):
            _hand((self.kind, self.batch), self._rows(range(*i.indices(n))), item)
        else:
            _hand((self.kind, self.batch), self._rows([i if i >= 0 else n + i]), item)
        return item

    def pop(self, i=-1):
        n = list.__len__(self)
        item = list.pop(self, i)
        j = i if i >= 0 else n + i
        _hand((self.kind, self.batch), self._rows([j]), item)
        if j == 0:
            self.popped += 1
        elif j != n - 1:
            self.exact = False
        return item

    def __iter__(self):
        for k, item in enumerate(list.__iter__(self)):
            _hand((self.kind, self.batch), self._rows([k]), item)
            yield item

    def __delitem__(self, i):
        if i == 0 or i == slice(0, 1):
            self.popped += 1
        else:
            self.exact = False
        return list.__delitem__(self, i)

    def __reduce__(self):
        return (_rebuild_loglist, (list(list.__iter__(self)), self.kind, self.batch, self.popped, self.exact))

    def __deepcopy__(self, memo):
        return _rebuild_loglist(copy.deepcopy(list(list.__iter__(self)), memo), self.kind, self.batch, self.popped, self.exact)

    def __copy__(self):
        return _rebuild_loglist(list(list.__iter__(self)), self.kind, self.batch, self.popped, self.exact)


def _rebuild_loglist(items, kind, batch, popped, exact=True):
    d = LogList(items, kind, batch)
    d.popped, d.exact = popped, exact
    return d


class LogArray(np.ndarray):
    """ndarray of pre-drawn variates (first axis = rows): indexing / iteration report what they hand out and return plain
    ndarrays; arrays derived from it (ufuncs, copies made by numpy) carry no label and log nothing"""

    def __new__(cls, arr, kind="?", batch=-1):
        obj = np.asarray(arr).view(cls)
        obj._lab = (kind, batch)
        return obj

    def __array_finalize__(self, obj):
        self._lab = None

    def __getitem__(self, i):
        out = np.ndarray.__getitem__(self, i)
        lab = getattr(self, "_lab", None)
        if isinstance(out, np.ndarray):
            out = out.view(np.ndarray)
        if lab is not None:
            rows = None
            try:
                first = i[0] if isinstance(i, tuple) and len(i) else i
                if not (isinstance(i, tuple) and len(i) == 0) and first is not Ellipsis:
                    rows = [int(r) for r in np.atleast_1d(np.arange(self.shape[0])[first]).ravel()]
            except Exception:
                rows = None
            _hand(lab, rows, out)
        return out

    def __iter__(self):
        for k in range(self.shape[0]):
            yield self[k]

    def __reduce__(self):
        lab = getattr(self, "_lab", None) or ("?", -1)
        return (_rebuild_logarray, (np.asarray(self).view(np.ndarray).copy(), lab[0], lab[1], getattr(self, "_lab", None) is not None))

    def __deepcopy__(self, memo):
        lab = getattr(self, "_lab", None)
        c = np.array(self.view(np.ndarray), copy=True)
        return LogArray(c, *lab) if lab is not None else c

    def __copy__(self):
        return self.__deepcopy__({})


def _rebuild_logarray(arr, kind, batch, labelled=True):
    return LogArray(arr, kind, batch) if labelled else arr


class LogIter:
    """logging stand-in for an iterator / generator the library created during the pre-computation"""

    def __init__(self, target, kind="it", batch=-1):
        self._t, self._lab = target, (kind, batch)

    def __iter__(self):
        return self

    def __next__(self):
        item = next(self._t)
        _hand(self._lab, None, item)
        return item

    def __getattr__(self, name):                # send / throw / close / gi_frame … of the wrapped object
        if name in ("_t", "_lab"):
            raise AttributeError(name)
        return getattr(self._t, name)

    def __length_hint__(self):
        import operator
        return operator.length_hint(self._t)

    def __reduce__(self):
        return (LogIter, (self._t, self._lab[0], self._lab[1]))

    def __deepcopy__(self, memo):
        return LogIter(copy.deepcopy(self._t, memo), *self._lab)

    def __copy__(self):
        return LogIter(copy.copy(self._t), *self._lab)


_LOGGING_TYPES = (LogDeque, LogList, LogArray, LogIter)


def _is_iter(v):
    return hasattr(v, "__next__") and not isinstance(v, LogIter) and not isinstance(v, type)


def _is_lib_obj(v):
    t = type(v)
    return (getattr(t, "__module__", "") or "").startswith("rpylib") and not isinstance(v, type)


def _attrs(o):
    out = {}
    d = getattr(o, "__dict__", None)
    if isinstance(d, dict):
        out.update(d)
    for cls in type(o).__mro__:
        s = cls.__dict__.get("__slots__", ())
        if isinstance(s, str):
            s = (s,)
        for n in s:
            if n in ("__dict__", "__weakref__"):
                continue
            nn = f"_{cls.__name__.lstrip('_')}{n}" if n.startswith("__") and not n.endswith("__") else n
            try:
                out[nn] = getattr(o, nn)
            except AttributeError:
                pass
    return out


def _walk(root, max_depth=5, limit=600):
    """(owner, attribute name, value) for every plain store / iterator held (at any depth) by library objects below root"""
    seen = {id(root)}
    stack = [(root, 0)]
    while stack and len(seen) < limit:
        o, depth = stack.pop()
        try:
            items = list(_attrs(o).items())
        except Exception:
            continue
        for name, v in items:
            if isinstance(v, (deque, list, np.ndarray)) or isinstance(v, LogIter) or _is_iter(v):
                yield o, name, v
            elif depth < max_depth and _is_lib_obj(v) and id(v) not in seen:
                seen.add(id(v))
                stack.append((v, depth + 1))


def _size(v):
    try:
        return len(v)
    except Exception:
        return -1


def _flat(v):
    try:
        a = np.asarray(list(deque.__iter__(v)) if isinstance(v, deque) else list(list.__iter__(v)) if isinstance(v, list) else v.view(np.ndarray))
    except Exception:
        return None
    if a.dtype == object or a.size == 0 or a.dtype.kind not in "iuf":
        return None
    return a


def _discover(root, batch, rows, before):
    """label and wrap the stores that hold the variates drawn by the pre-computation that has just returned"""
    found, snap = [], None
    fset, iset = _PRE["f"] or set(), _PRE["i"] or set()
    for owner, name, v in list(_walk(root)):
        try:
            if isinstance(v, _LOGGING_TYPES) and not isinstance(v, LogIter):
                lab = (v.kind, v.batch) if not isinstance(v, LogArray) else getattr(v, "_lab", None)
                if lab is not None and lab[1] == batch:
                    continue                                   # already wrapped for this batch (shared between two holders)
            changed = before.get((id(owner), name)) != (id(v), _size(v))
            if isinstance(v, LogIter) or _is_iter(v):
                if changed and not isinstance(v, LogIter):
                    setattr(owner, name, LogIter(v, "it", batch))
                    found.append({"q": "it", "type": type(v).__name__, "holder": type(owner).__name__})
                continue
            a = _flat(v)
            if a is None:
                continue
            kind = None
            if a.dtype.kind == "f":
                probe = a.ravel()[[0, -1]]
                if fset and all(float(x) in fset for x in probe):
                    kind = "b"
            elif changed and iset and _size(v) == rows and a.ndim >= 1 and all(int(x) in iset for x in np.unique(a)):
                kind = "p"
            if kind is None:
                continue
            if isinstance(v, deque):
                new = LogDeque(list(deque.__iter__(v)), kind, batch)
            elif isinstance(v, list):
                new = LogList(list(list.__iter__(v)), kind, batch)
            else:
                new = LogArray(v.view(np.ndarray), kind, batch)
            setattr(owner, name, new)
            found.append({"q": kind, "type": type(v).__name__, "holder": type(owner).__name__})
            if kind == "p" and snap is None:
                a2 = a.reshape(a.shape[0], -1)
                snap = {"shape": list(a2.shape), "v": [int(x) for x in a2.ravel()]}
        except Exception as e:  # noqa  (read-only holder, exotic store …): the value-level channels take over
            found.append({"q": "unwrappable", "type": type(v).__name__, "holder": type(owner).__name__, "why": f"{type(e).__name__}"})
    return found, snap


# ------------------------------------------------------------------------------------------------ installation
_NP_SKIP = {"seed", "get_state", "set_state", "shuffle", "bytes", "get_bit_generator", "set_bit_generator"}
_PY_FUNCS = ("random", "getrandbits", "randint", "randrange", "uniform", "gauss", "normalvariate", "expovariate", "choice",
             "betavariate", "gammavariate", "lognormvariate", "paretovariate", "triangular", "vonmisesvariate",
             "weibullvariate", "binomialvariate")


@contextmanager
def tracing(directory):
    """install the wrappers; yields nothing; restores everything on exit"""
    from rpylib.process import levyprocess
    from rpylib.process.coupling import couplingmarkovchain
    Path(directory).mkdir(parents=True, exist_ok=True)
    for f in Path(directory).glob("log.*"):
        f.unlink()
    _DIR["path"] = str(directory)
    _BATCH.update(n=0, nb=1, grid=None, pre_normals=0)
    _PRE.update(depth=0, f=None, i=None)
    _PATH["depth"] = 0
    saved = []

    def patch(obj, name, new):
        saved.append((obj, name, getattr(obj, name)))
        setattr(obj, name, new)

    def patch_method(cls, name, wrap):
        """wrap a public method if the library (still) has it; its absence only narrows what can be observed"""
        if callable(getattr(cls, name, None)):
            patch(cls, name, wrap(getattr(cls, name)))
        else:
            _log({"e": "tracer_error", "where": "install", "what": f"{cls.__name__}.{name} not found: scope not observed"})

    # ---- draws and seeds
    def wrap_np(name, orig):
        def f(*a, **k):
            out = orig(*a, **k)
            try:
                kind, vals = _vals(out)
                n = len(vals) if kind else max(1, int(np.size(out)))
                _log({"e": "draw", "lib": "np", "fn": name, "n": n, "k": kind, "v": vals})
                if _PRE["depth"] > 0 and kind:
                    (_PRE["f"] if kind == "f" else _PRE["i"]).update(vals)
            except Exception as e:  # noqa
                _tracer_error("draw", e)
            return out
        f.__name__ = name
        return f

    def wrap_py(name, orig):
        def f(*a, **k):
            out = orig(*a, **k)
            try:
                _log({"e": "draw", "lib": "py", "fn": name, "n": 1, "k": None, "v": []})
            except Exception as e:  # noqa
                _tracer_error("draw", e)
            return out
        f.__name__ = name
        return f

    npr = np.random
    o_seed = npr.seed
    patch(npr, "seed", lambda s=None: (_log({"e": "seed", "lib": "np", "s": None if s is None else int(s)}), o_seed(s))[1])
    global_state = getattr(getattr(npr, "mtrand", None), "_rand", None)
    for name in sorted(dir(npr)):
        if name.startswith("_") or name in _NP_SKIP:
            continue
        orig = getattr(npr, name)
        if callable(orig) and global_state is not None and getattr(orig, "__self__", None) is global_state:
            patch(npr, name, wrap_np(name, orig))
    p_seed = pyrandom.seed
    patch(pyrandom, "seed", lambda s=None, *a: (_log({"e": "seed", "lib": "py", "s": None if s is None else int(s)}), p_seed(s, *a))[1])
    for name in _PY_FUNCS:
        if hasattr(pyrandom, name):
            patch(pyrandom, name, wrap_py(name, getattr(pyrandom, name)))

    # ---- pre-computation scope (public process API) + discovery of the stores
    def wrap_pre(orig):
        def pre_computation(self, mc_paths, product, *a, **k):
            outer = _PRE["depth"] == 0
            before = {}
            if outer:
                try:
                    batch = _BATCH["n"] = _BATCH["n"] + 1
                    _PRE["f"], _PRE["i"] = set(), set()
                    _log({"e": "pre_begin", "batch": batch, "rows": int(mc_paths)})
                    before = {(id(o), n): (id(v), _size(v)) for o, n, v in _walk(self)}
                except Exception as e:  # noqa
                    _tracer_error("pre_begin", e)
            _PRE["depth"] += 1
            try:
                out = orig(self, mc_paths, product, *a, **k)
            finally:
                _PRE["depth"] -= 1
            if outer:
                try:
                    batch = _BATCH["n"]
                    proc = getattr(self, "fine_process", self)
                    grid = [float(t) for t in product.times_grid()]
                    found, snap = _discover(self, batch, int(mc_paths), before)
                    _BATCH.update(nb=len(grid) - 1, grid=grid, pre_normals=len(_PRE["f"]))
                    _log({"e": "pre_end", "batch": batch, "rows": int(mc_paths), "nb": len(grid) - 1, "grid": grid,
                          "dim": int(proc.dimension()), "lam": float(proc.intensity()), "cont": found, "snap": snap})
                except Exception as e:  # noqa
                    _tracer_error("pre_end", e)
                    _log({"e": "pre_end", "batch": _BATCH["n"], "rows": int(mc_paths), "nb": None, "grid": None, "dim": None,
                          "lam": None, "cont": [], "snap": None})
                _PRE["f"], _PRE["i"] = None, None
            return out
        return pre_computation

    patch_method(levyprocess.LevyProcess, "pre_computation", wrap_pre)
    patch_method(couplingmarkovchain.CouplingMarkovChain, "pre_computation", wrap_pre)

    # ---- channel B: arrays reaching the module-level diffusion helper (wherever it has been imported)
    helper = getattr(levyprocess, "simulate_diffusion_with_brownian_increments", None)
    if callable(helper):
        def diffusion_helper(scaled_stddev, brownian_increments, *a, **k):
            try:
                kind, vals = _vals(brownian_increments)
                _log({"e": "hand", "ch": "arg", "q": "b", "batch": None, "rows": None, "k": kind, "v": vals})
            except Exception as e:  # noqa
                _tracer_error("arg", e)
            return helper(scaled_stddev, brownian_increments, *a, **k)
        for mod in list(sys.modules.values()):
            if getattr(mod, "__name__", "").startswith("rpylib") and getattr(mod, "simulate_diffusion_with_brownian_increments", None) is helper:
                patch(mod, "simulate_diffusion_with_brownian_increments", diffusion_helper)

    # ---- path boundaries + what the returned path object shows (channel C, activity per date, duplicates)
    def describe(path):
        out = {}
        try:
            times = np.asarray(path.times(), dtype=float)
            out["steps"] = int(times.size - 1)
            grid = _BATCH["grid"]
            jp = np.asarray(path.value_jump(), dtype=float)
            jp2 = jp.reshape(-1, jp.shape[-1])
            if grid is not None and len(grid) > 2:
                g = np.asarray(grid)
                if times.size == g.size and np.allclose(times, g, rtol=0, atol=1e-12) and jp2.shape[-1] == g.size:
                    out["act"] = [int(np.any(jp2[:, k + 1] != 0.0)) for k in range(g.size - 1)]
                else:
                    inner = times[1:-1]
                    out["act"] = [int(np.any((inner > g[k]) & (inner < g[k + 1]))) for k in range(g.size - 1)]
            dp = np.asarray(getattr(path, "diffusion_path"), dtype=float)
            dp2 = dp.reshape(-1, dp.shape[-1])
            if np.any(dp2 != 0.0):
                out["dh"] = hashlib.sha1(np.ascontiguousarray(dp2[0]).tobytes()).hexdigest()[:16]
                if _BATCH["pre_normals"] > 0 and dp2.shape[-1] <= 64:
                    out["d"] = [float(x) for x in np.diff(dp2[0])]
        except Exception as e:  # noqa
            _tracer_error("describe", e)
        return out

    def wrap_path(orig):
        def f(self, *a, **k):
            outer = _PATH["depth"] == 0
            if outer:
                _log({"e": "path_begin", "batch": _BATCH["n"]})
            _PATH["depth"] += 1
            res, ok = None, False
            try:
                res = orig(self, *a, **k)
                ok = True
                return res
            finally:
                _PATH["depth"] -= 1
                if outer:
                    _log(dict({"e": "path_end"}, **(describe(res) if ok else {})))
        return f

    patch_method(levyprocess.LevyProcess, "simulate_one_path", wrap_path)
    patch_method(couplingmarkovchain.CouplingMarkovChain, "simulate_one_path_with_coupling", wrap_path)
    try:
        yield
    finally:
        for obj, name, old in reversed(saved):
            setattr(obj, name, old)
        d = _DIR["path"]
        _DIR["path"] = None
        for key in [k for k in _FH if k[0] == d]:
            try:
                _FH.pop(key).close()
            except Exception:
                pass


def read(directory, main_pid=None):
    """-> {pid: [events]}"""
    out = {}
    for f in sorted(Path(directory).glob("log.*")):
        pid = int(f.name.split(".")[1])
        out[pid] = [json.loads(l) for l in f.read_text().splitlines() if l.strip()]
    return out


# ------------------------------------------------------------------------------------------------ analysis
_NORMAL_FNS = ("normal", "standard_normal", "randn")
_COUNT_FNS = ("poisson",)


def _arrangement(snap, pois):
    """tokens of the cells of the jump-count store: how the drawn counts were arranged in it, inferred from the values.
    -> {row: [tokens]} or None"""
    if snap is None or not pois:
        return None
    r, c = snap["shape"]
    s = snap["v"]
    if len(pois) != r * c:
        return None
    vals = [v for v, _ in pois]
    col = all(s[i * c + k] == vals[k * r + i] for i in range(r) for k in range(c))      # date by date (the library's order)
    row = all(s[i * c + k] == vals[i * c + k] for i in range(r) for k in range(c))      # path by path
    if col:
        return {i: [pois[k * r + i][1] for k in range(c)] for i in range(r)}
    if row:
        return {i: [pois[i * c + k][1] for k in range(c)] for i in range(r)}
    return None


def _match_path_values(paths, normals):
    """channel C.  paths: list of dicts with 'd' (increments of the diffusion component, one per date); normals: [(value, token)].
    -> {index in paths: [tokens]} for the paths whose increments are, date by date, one common scale times a pre-drawn normal"""
    out = {}
    ps = [(i, p["d"]) for i, p in enumerate(paths) if p.get("d")]
    if len(ps) < 3 or not normals:
        return out
    nb = len(ps[0][1])
    if any(len(d) != nb for _, d in ps):
        return out
    order = np.argsort([v for v, _ in normals])
    V = np.array([normals[j][0] for j in order])
    T = [normals[j][1] for j in order]
    tol = 1e-11

    def nearest(x):
        j = np.clip(np.searchsorted(V, x), 1, len(V) - 1)
        lo, hi = V[j - 1], V[j]
        pick = np.where(np.abs(x - lo) <= np.abs(hi - x), j - 1, j)
        return pick, np.abs(V[pick] - x)

    if len(V) < 2:
        return out
    for k in range(nb):
        col = np.array([d[k] for _, d in ps])
        nz = np.flatnonzero(col != 0.0)
        if len(nz) < 3 or len(set(col[nz].tolist())) < 3:       # the scale is identified by >= 3 distinct values only
            return {}
        ref = col[nz[int(np.argmax(np.abs(col[nz])))]]        # the best conditioned quotient
        hit = None
        for v in V:
            if abs(v) < 1e-9:
                continue
            x = col[nz] / (ref / v)
            pick, err = nearest(x)
            if np.all(err <= tol * np.maximum(1.0, np.abs(x))):
                hit = pick
                break
        if hit is None:
            return {}
        for m, j in zip(nz, hit):
            out.setdefault(ps[m][0], []).append(T[int(j)])
    return out


def analyse(events_by_pid, main_pid):
    """Turn the event streams into consumption tokens.
    Returns dict(paths=[{pid, batch, tokens, fly, steps, act, dh, n_count, n_normal}], seeds=[(pid, lib, s, draws_before)],
    passes=[…structure of the main process for the model…], batches={…}, problems=[…violations visible on the trace alone…],
    notes=[…what could not be observed…], channels={…}, exact=bool (tokens of all pre-drawn variates identified))"""
    problems, notes, paths, seeds = [], [], [], []
    batches = {}               # batch -> dict(rows, nb, dim, lam, grid, normals=[(v, tok)], counts=[(v, tok)], ptoks, cont, pid)
    norm_tok = {}              # value of a pre-drawn normal -> token
    passes = []
    channels = {"cont": 0, "arg": 0, "path": 0, "it": 0}
    outside = 0
    timeline = []              # main process: ("draw", fn, n) / ("path", index) in order, for the prefix counting oracle
    totals = {"count": 0, "normal": 0}       # scalars drawn by jump-count / normal functions, all processes
    for pid in sorted(events_by_pid, key=lambda p: (p != main_pid, p)):
        evs = events_by_pid[pid]
        start = ("a", pid) if pid == main_pid else ("inh", 0)
        state = {"np": [start, 0], "py": [start, 0]}
        draws_since_start = 0
        cur_path = None
        in_pre = None
        cur_pass = None
        for ev in evs:
            e = ev["e"]
            if e == "seed":
                seeds.append((pid, ev["lib"], ev["s"], draws_since_start))
                state[ev["lib"]] = [("s", ev["s"]), 0]
            elif e == "draw":
                lib, n = ev["lib"], ev["n"]
                src, pos = state[lib]
                toks = [(lib, src, pos + i) for i in range(n)]
                state[lib][1] = pos + n
                draws_since_start += n
                fn = ev.get("fn")
                if fn in _COUNT_FNS:
                    totals["count"] += n
                if fn in _NORMAL_FNS:
                    totals["normal"] += n
                if pid == main_pid:
                    timeline.append(("draw", fn, n))
                if in_pre is not None:
                    b = batches[in_pre]
                    if ev.get("k") == "f" and len(ev["v"]) == n:
                        for v, t in zip(ev["v"], toks):
                            b["normals"].append((v, t))
                            norm_tok.setdefault(v, t)
                    elif ev.get("k") == "i" and len(ev["v"]) == n:
                        b["counts"] += list(zip(ev["v"], toks))
                    else:
                        b["other"] += n
                elif cur_path is not None:
                    cur_path["tokens"] += toks
                    cur_path["fly"] += n
                    if fn in _COUNT_FNS:
                        cur_path["n_count"] += n
                    if fn in _NORMAL_FNS:
                        cur_path["n_normal"] += n
                else:
                    outside += n
            elif e == "pre_begin":
                in_pre = ev["batch"]
                batches[in_pre] = dict(rows=ev["rows"], nb=None, dim=None, lam=None, grid=None, normals=[], counts=[], other=0,
                                       ptoks=None, cont=[], pid=pid, paths=[])
            elif e == "pre_end":
                b = batches.get(ev["batch"])
                if b is None:
                    continue
                b.update(nb=ev["nb"], dim=ev["dim"], lam=ev["lam"], grid=ev["grid"], cont=ev["cont"])
                b["ptoks"] = _arrangement(ev.get("snap"), b["counts"])
                b["snap"] = ev.get("snap")
                in_pre = None
                if pid == main_pid:
                    predraw = bool(b["normals"] or b["counts"])
                    cur_pass = {"rows": len(b["counts"]), "rows_b": len(b["normals"]), "n": 0, "fly": [], "predraw": predraw,
                                "unit": (b["nb"], b["dim"]), "batch": ev["batch"]}
                    passes.append(cur_pass)
            elif e == "path_begin":
                cur_path = {"pid": pid, "batch": ev.get("batch"), "tokens": [], "pre": set(), "fly": 0, "hands": [], "n_count": 0,
                            "n_normal": 0, "seen_b": False, "seen_p": False}
            elif e == "path_end":
                if cur_path is not None:
                    cur_path.update(steps=ev.get("steps"), act=ev.get("act"), dh=ev.get("dh"), d=ev.get("d"))
                    paths.append(cur_path)
                    if cur_path["batch"] in batches:
                        batches[cur_path["batch"]]["paths"].append(len(paths) - 1)
                    if pid == main_pid:
                        timeline.append(("path", len(paths) - 1))
                        if cur_pass is None:
                            cur_pass = {"rows": 0, "rows_b": 0, "n": 0, "fly": [], "predraw": False, "unit": (1, 1), "batch": None}
                            passes.append(cur_pass)
                        cur_pass["n"] += 1
                        cur_pass["fly"].append(cur_path["fly"])
                cur_path = None
            elif e == "hand":
                if cur_path is None:
                    continue
                ch = "it" if ev.get("q") == "it" else ev.get("ch", "cont")
                if ev.get("k") == "f":
                    hit = [norm_tok[v] for v in ev["v"] if v in norm_tok]
                    if hit:
                        channels[ch] += 1
                        cur_path["seen_b"] = True
                        cur_path["pre"].update(hit)
                elif ev.get("q") == "p":
                    b = batches.get(ev.get("batch"))
                    rows = ev.get("rows")
                    cur_path["seen_p"] = True
                    channels[ch] += 1
                    if rows is None or b is None:
                        cur_path["p_unlocated"] = True
                    else:
                        for r in rows:
                            toks = (b["ptoks"] or {}).get(r)
                            if toks is None:        # counts not locatable among the draws: the cell itself is the unit consumed
                                toks = [("cell", (ev["batch"], "p"), r)]
                                cur_path["p_synthetic"] = True
                            cur_path["pre"].update(toks)
            elif e == "tracer_error":
                notes.append(f"tracer: {ev.get('where')}: {ev.get('what')}")
    # ---- channel C (values of the returned paths) per batch: fallback, cross-check otherwise
    for bid, b in batches.items():
        bp = [paths[i] for i in b["paths"]]
        if not b["normals"] or b["dim"] != 1 or len(bp) < 3:
            continue
        m = _match_path_values(bp, b["normals"])
        if not m:
            continue
        observed = any(p["seen_b"] for p in bp)
        if observed:
            bad = [j for j, toks in m.items() if bp[j]["seen_b"] and not set(toks) <= bp[j]["pre"]]
            if bad:
                notes.append("a batch where the values of the returned paths point to other pre-drawn normals than the stores handed out: "
                             "channel C ignored there")
            else:
                channels["path"] += len(m)
        else:
            for j, toks in m.items():
                bp[j]["pre"].update(toks)
                bp[j]["seen_b"] = True
                bp[j]["via_path"] = True
            channels["path"] += len(m)
    # ---- what stayed unobservable
    unobserved = {"normal": 0, "count": 0}
    exact = True
    for bid, b in batches.items():
        bp = [paths[i] for i in b["paths"]]
        if not bp:
            continue
        if b["normals"] and not all(p["seen_b"] for p in bp):
            unobserved["normal"] += 1
            exact = False
        if b["counts"] and (not all(p["seen_p"] for p in bp) or any(p.get("p_unlocated") or p.get("p_synthetic") for p in bp)):
            unobserved["count"] += 1
            exact = False
    if unobserved["normal"]:
        notes.append("some batches: which pre-drawn normal variates the paths consume could not be observed (no store, helper argument or "
                     "path value matched): Brownian part judged on counts and value-level oracles only")
    if unobserved["count"]:
        notes.append("some batches: which pre-drawn jump counts the paths consume could not be located among the draws: jump counts "
                     "judged on counts, store cells and the value-level interval oracle only")
    if outside:
        notes.append("variates drawn outside every path and pre-computation: not attributable to a sample")
    stores = sorted({f"{c.get('q')}:{c.get('type')} held by {c.get('holder')}" for b in batches.values() for c in b["cont"]})
    if stores:
        notes.append("stores of pre-drawn variates found by value and observed: " + ", ".join(stores))
    for p in paths:
        p["tokens"] = p["tokens"] + sorted(p["pre"], key=str)
    return dict(paths=paths, seeds=seeds, passes=passes, batches=batches, problems=problems, notes=notes, channels=channels,
                exact=exact, timeline=timeline, outside=outside, totals=totals)
