"""Scripted driving of the real Monte-Carlo engines (no change to /repo needed).

* `FakeCoupling`: a duck-typed coupling process whose k-th sample at level l carries the unique identifiable value
  fine = 16 l + (k+1)/1024, coarse = 16 l - 8 + (k+1)/2048 (dyadic: every float operation of the engine on them is exact
  up to the final means); cost per sample 2^l; discount factor 1/2.  Its fine process subclasses MarkovChainSDE without
  calling the constructor so that `Engine.initialisation` skips the COS density.
* `ScriptedCriteria`: a public `ConvergenceCriteria(criteria=…, compute_mc_paths=…)` that replays a prescribed oracle
  history (optimal sizes / convergence verdicts) and snapshots the engine's statistics at every read point.
The same oracle history drives the Lean model (Drivers/C05.lean)."""
from __future__ import annotations

import copy
import numpy as np

from rpylib.montecarlo.configuration import ConfigurationMultiLevel, ConvergenceRates
from rpylib.montecarlo.multilevel.criteria import ConvergenceCriteria
from rpylib.montecarlo.multilevel.engine import Engine as MLMCEngine
from rpylib.montecarlo.path import StochasticJumpPath
from rpylib.montecarlo.statistic.statistic import PT
from rpylib.process.markovchain.markovchainsde import MarkovChainSDE
from rpylib.process.process import ProcessRepresentation
from rpylib.product.payoff import PayoffOnTheFly
from rpylib.product.product import Product
from rpylib.product.underlying import Spot

DF = 0.5
T = 1.0


def fine_value(l, k):
    return 16.0 * l + (k + 1) / 1024.0


def coarse_value(l, k):
    return 16.0 * l - 8.0 + (k + 1) / 2048.0


class _FakeFine(MarkovChainSDE):
    process_representation = ProcessRepresentation.IDENDITY

    def __init__(self):  # deliberately not calling the parent constructor
        pass

    def deterministic_path(self, times):
        return np.zeros(len(times))

    def df(self, t):
        return DF


class _FakeModel:
    process_representation = ProcessRepresentation.IDENDITY

    def dimension_model(self):
        return 1

    def dimension(self):
        return 1


class FakeCoupling:
    """stands in for CouplingMarkovChain; one instance per level after `next_level` (the engine deep-copies it)"""

    def __init__(self, log=None):
        self.level = 0
        self.model = _FakeModel()
        self.fine_process = _FakeFine()
        self.count = 0                 # samples simulated so far by this level's process
        self.log = log if log is not None else []      # shared across deep copies (see __deepcopy__)

    def __deepcopy__(self, memo):
        c = FakeCoupling(self.log)
        c.level, c.count = self.level, self.count
        return c

    def initialisation(self, product, max_step_epsilon=None):
        pass

    def pre_computation(self, mc_paths, product):
        self.log.append(("pre", self.level, int(mc_paths)))

    def reset_one_simulation_cost(self):
        pass

    def one_simulation_cost(self, product):
        return float(2 ** self.level)

    def simulate_one_path(self):
        k = self.count
        self.count += 1
        self.log.append(("sim", self.level, k))
        times = np.array([0.0, T])
        return StochasticJumpPath(times, np.array([0.0, fine_value(self.level, k)]), np.zeros(2))

    def simulate_one_path_with_coupling(self):
        k = self.count
        self.count += 1
        self.log.append(("sim", self.level, k))
        times = np.array([0.0, T])
        diff = np.array([[0.0, fine_value(self.level, k)], [0.0, coarse_value(self.level, k)]])
        return StochasticJumpPath(times, diff, np.zeros((2, 2)))

    def next_level(self, mc_paths, path_managers, product, max_step_epsilon=None):
        self.level += 1
        self.count = 0
        self.log.append(("next_level", self.level, int(mc_paths)))
        if path_managers is not None:
            pm = copy.deepcopy(path_managers[-1])
            pm.deterministic_path = lambda times: np.zeros((2, len(times)))
            path_managers.append(pm)


def identity_product(notional=1.0):
    return Product(payoff_underlying=Spot(), payoff=PayoffOnTheFly(lambda x: x), maturity=T, notional=notional)


class Exhausted(Exception):
    pass


def snapshot(engine):
    """what `set_mlmc_results` has just computed + the raw arrays (no_control_variates view)"""
    st = engine.statistics
    res = st.mlmc_results
    rows = [np.array(ms._payoff_statistics.stats, dtype=float).copy() for ms in st.mc_statistics]
    return dict(Nl=[int(x) for x in res.Nl], ml=[float(x) for x in res.ml], vl=[float(x) for x in res.vl],
                cl=[float(x) for x in res.cl], mean_level=[float(x) for x in res.mean_level_l],
                var_level=[float(x) for x in res.var_level_l], kurtosis=[float(x) for x in res.kurtosis],
                cost=float(res.cost), rows=rows, price=float(np.ravel(st.price(no_control_variates=True))[0]))


def run_mlmc(history, L0, N0, level_max, seed=None, nb_of_processes=1, coupling=None, product=None, control_variates=None):
    """history: list of (Ns, conv, Ns2).  Returns dict(outcome, reads=[snapshot…], final=snapshot|None, log, engine).
    Call pattern of one loop iteration of Engine.price: compute_mc_paths [-> criteria [-> compute_mc_paths]]."""
    log, reads = [], []
    st = {"i": 0, "state": "idle"}
    holder = {}

    def fit(ns, n):
        ns = list(ns) + [0] * max(0, n - len(ns))
        return np.array(ns[:n], dtype=int)

    def compute_mc_paths(rmse, vl, cl):
        if st["state"] == "crit_done":          # second call of the iteration: a level has just been appended
            ns = history[st["i"]][2]
            st["i"] += 1
            st["state"] = "idle"
            return fit(ns, len(vl))
        if st["state"] == "first_done":         # the previous iteration ended without reaching the convergence test
            st["i"] += 1
        if st["i"] >= len(history):
            raise Exhausted()
        snap = snapshot(holder["engine"])
        snap["loglen"] = len(log)
        reads.append(snap)
        st["state"] = "first_done"
        return fit(history[st["i"]][0], len(vl))

    def criteria(alpha, ml, rmse):
        st["state"] = "crit_done"
        return bool(history[st["i"]][1])

    cfg = ConfigurationMultiLevel(convergence_rates=ConvergenceRates(alpha=1.0, beta=2.0, gamma=1.0),
                                  convergence_criteria=ConvergenceCriteria(criteria=criteria, compute_mc_paths=compute_mc_paths),
                                  initial_level=L0, maximum_level=level_max, initial_mc_paths=N0, seed=seed,
                                  nb_of_processes=nb_of_processes, control_variates=control_variates)
    eng = MLMCEngine(configuration=cfg, coupling_process=coupling if coupling is not None else FakeCoupling(log))
    holder["engine"] = eng
    outcome = "ret"
    try:
        eng.price(product if product is not None else identity_product(), rmse=0.01)
    except Exhausted:
        outcome = "cont"
    final = snapshot(eng) if outcome == "ret" else None
    return dict(outcome=outcome, reads=reads, final=final, log=log, engine=eng)


def run_mlmc_fixed(max_level, mc_paths, L0=None, seed=None):
    """price_with_constant_mc_paths_and_level with the scripted process"""
    log = []
    cfg = ConfigurationMultiLevel(convergence_rates=ConvergenceRates(alpha=1.0, beta=2.0, gamma=1.0),
                                  initial_level=max_level if L0 is None else L0, maximum_level=max_level,
                                  initial_mc_paths=mc_paths, seed=seed, nb_of_processes=1)
    eng = MLMCEngine(configuration=cfg, coupling_process=FakeCoupling(log))
    eng.price_with_constant_mc_paths_and_level(identity_product())
    return dict(final=snapshot(eng), log=log, engine=eng)


# ------------------------------------------------------------------------------------------------ standard engine
from rpylib.montecarlo.configuration import ConfigurationStandard
from rpylib.montecarlo.standard.engine import Engine as StdEngine
from rpylib.product.product import ControlVariates
from rpylib.process.process import Process


class FakeProcess:
    """stands in for a LevyProcess in the standard engine: the i-th simulated path ends at the prescribed value"""

    process_representation = ProcessRepresentation.IDENDITY

    def __init__(self, terminal_values, df=DF, log=None):
        self.terminal_values = list(terminal_values)
        self.model = _FakeModel()
        self._df = df
        self.count = 0
        self.log = log if log is not None else []

    def dimension(self):
        return 1

    def initialisation(self, product):
        pass

    def pre_computation(self, mc_paths, product):
        self.log.append(("pre", 0, int(mc_paths)))

    def deterministic_path(self, times):
        return np.zeros(len(times))

    def df(self, t):
        return self._df

    def simulate_one_path(self):
        k = self.count
        self.count += 1
        self.log.append(("sim", 0, k))
        return StochasticJumpPath(np.array([0.0, T]), np.array([0.0, self.terminal_values[k]]), np.zeros(2))


def run_standard(terminal_values, product, df=DF, controls=None, control_prices=None, spot_stats=False, seed=None):
    log = []
    cv = ControlVariates(products=controls, prices=control_prices) if controls else None
    cfg = ConfigurationStandard(mc_paths=len(terminal_values), seed=seed, control_variates=cv,
                                activate_spot_statistics=spot_stats, nb_of_processes=1)
    eng = StdEngine(configuration=cfg, process=FakeProcess(terminal_values, df=df, log=log))
    stats = eng.price(product)
    return dict(stats=stats, log=log, engine=eng)


# ------------------------------------------------------------------------------------------------ additions for C05/C06
# (new helpers only; nothing above is changed)
def fine_value_v(l, k):
    """richer (non-monotone in k) dyadic values for the control-variate probes: 16 l + ((37 k + 11) mod 64)/16"""
    return 16.0 * l + ((37 * k + 11) % 64) / 16.0


def coarse_value_v(l, k):
    return 16.0 * l - 8.0 + ((29 * k + 5) % 64) / 32.0


class FakeCouplingV(FakeCoupling):
    """FakeCoupling with the values `fine_value_v` / `coarse_value_v` (mirrored by `procV` of lean/Drivers/C05.lean)"""

    def __deepcopy__(self, memo):
        c = FakeCouplingV(self.log)
        c.level, c.count = self.level, self.count
        return c

    def simulate_one_path(self):
        k = self.count
        self.count += 1
        self.log.append(("sim", self.level, k))
        return StochasticJumpPath(np.array([0.0, T]), np.array([0.0, fine_value_v(self.level, k)]), np.zeros(2))

    def simulate_one_path_with_coupling(self):
        k = self.count
        self.count += 1
        self.log.append(("sim", self.level, k))
        diff = np.array([[0.0, fine_value_v(self.level, k)], [0.0, coarse_value_v(self.level, k)]])
        return StochasticJumpPath(np.array([0.0, T]), diff, np.zeros((2, 2)))


def control_value(kind, par, s):
    """payoff functions of the scripted control variates (mirrored by `ctlVal` of lean/Drivers/C05.lean)"""
    m = s % 8.0
    if kind == "sq":
        return m * m
    if kind == "call":
        return max(m - par, 0.0)
    return s - par                      # "fwd"


def make_controls(specs):
    """specs: list of (kind, par, notional, price) -> ControlVariates with scalar prices"""
    prods = [Product(payoff_underlying=Spot(), payoff=PayoffOnTheFly(lambda x, kind=kind, par=par: control_value(kind, par, float(x))),
                     maturity=T, notional=notional) for kind, par, notional, _ in specs]
    return ControlVariates(products=prods, prices=[float(pr) for _, _, _, pr in specs])


def snapshot_cv(engine):
    """`snapshot` + the control arrays, the adjusted arrays and the price with control variates"""
    snap = snapshot(engine)
    st = engine.statistics
    snap["xrows"] = [np.array(ms._control_variates_statistics.stats, dtype=float).copy() for ms in st.mc_statistics]
    snap["adj"] = [np.array(ms._payoff_statistics_with_cv.stats, dtype=float).copy() for ms in st.mc_statistics]
    snap["price_cv"] = float(np.ravel(st.price())[0])
    return snap


def run_mlmc_hooked(history, L0, N0, level_max, coupling=None, product=None, control_variates=None, snap_fn=snapshot,
                    rates=(1.0, 2.0, 1.0), engine=None):
    """`run_mlmc` (one process, unseeded) that additionally records in `calls` the arguments the engine hands to the criteria
    callbacks — ("mc_paths", vl, cl) for every `compute_mc_paths` call and ("criteria", alpha, ml) for every `criteria` call —
    and the engine's own `Nl`/`dNl` bookkeeping is observable through the snapshots taken with `snap_fn` at every read point.
    `engine`: an EXISTING engine object (built by an earlier call) to be re-configured through its public configuration attributes
    and priced again (`engine reuse` histories); its coupling's log is emptied first."""
    log, reads, calls = [], [], []
    if engine is not None:
        log = engine.coupling_process.log
        del log[:]
    st = {"i": 0, "state": "idle"}
    holder = {}

    def fit(ns, n):
        ns = list(ns) + [0] * max(0, n - len(ns))
        return np.array(ns[:n], dtype=int)

    def compute_mc_paths(rmse, vl, cl):
        if st["state"] == "crit_done":
            calls.append(("mc_paths2", [float(x) for x in vl], [float(x) for x in cl]))
            ns = history[st["i"]][2]
            st["i"] += 1
            st["state"] = "idle"
            return fit(ns, len(vl))
        if st["state"] == "first_done":
            st["i"] += 1
        if st["i"] >= len(history):
            raise Exhausted()
        calls.append(("mc_paths", [float(x) for x in vl], [float(x) for x in cl]))
        snap = snap_fn(holder["engine"])
        snap["loglen"] = len(log)
        reads.append(snap)
        st["state"] = "first_done"
        return fit(history[st["i"]][0], len(vl))

    def criteria(alpha, ml, rmse):
        calls.append(("criteria", float(alpha), [float(x) for x in ml]))
        st["state"] = "crit_done"
        return bool(history[st["i"]][1])

    if engine is not None:
        from rpylib.product.product import NoControlVariates
        eng, cfg = engine, engine.configuration
        cfg.convergence_rates = ConvergenceRates(alpha=rates[0], beta=rates[1], gamma=rates[2])
        cfg.convergence_criteria = ConvergenceCriteria(criteria=criteria, compute_mc_paths=compute_mc_paths)
        cfg.initial_level, cfg.maximum_level, cfg.initial_mc_paths = L0, level_max, N0
        cfg.control_variates = control_variates or NoControlVariates()
    else:
        cfg = ConfigurationMultiLevel(convergence_rates=ConvergenceRates(alpha=rates[0], beta=rates[1], gamma=rates[2]),
                                      convergence_criteria=ConvergenceCriteria(criteria=criteria, compute_mc_paths=compute_mc_paths),
                                      initial_level=L0, maximum_level=level_max, initial_mc_paths=N0, seed=None,
                                      nb_of_processes=1, control_variates=control_variates)
        eng = MLMCEngine(configuration=cfg, coupling_process=coupling if coupling is not None else FakeCoupling(log))
        if coupling is not None:
            coupling.log = log
    holder["engine"] = eng
    outcome = "ret"
    try:
        eng.price(product if product is not None else identity_product(), rmse=0.01)
    except Exhausted:
        outcome = "cont"
    final = snap_fn(eng) if outcome == "ret" else None
    return dict(outcome=outcome, reads=reads, final=final, log=log, engine=eng, calls=calls)
