"""Shared machinery of every check: Lean build + axiom audit, the line-protocol client of the Lean drivers,
comparison rules, classification of failures against known_findings.json, evidence, exit codes.

Vocabulary (DESIGN.md §1):  M = Lean model, T = theorems, C = correspondence (implementation vs M),
S = search / property oracle evaluated directly on the implementation.
A failure has a kind:
  "oracle" – the property itself fails on the implementation for a concrete input (this is a failing input);
  "corr"   – implementation and model disagree (the tie between T and the code is broken);
  "proof"  – a proof obligation (generated constants) or the axiom audit no longer checks.
"corr"/"proof" failures are never reported by themselves: the run first looks for "oracle" failures
(the oracles run on every generated input, and `search` hooks get an extended budget); if none is found the
VIOLATION line ends with `no-failing-input-found` and the replay file names what no longer checks.
"""
from __future__ import annotations

import hashlib
import json
import math
import os
import random
import re
import select
import subprocess
import sys
import time
import traceback
from collections import Counter
from fractions import Fraction
from pathlib import Path

ROOT = Path(__file__).resolve().parent.parent
LEAN_DIR = ROOT / "lean"
WORK = ROOT / ".work"
EVIDENCE = ROOT / "evidence"
if os.environ.get("VERIF_REPO"):
    # developer-only mutation experiment against a scratch checkout: keep its scratch files and its (meaningless)
    # evidence apart from those of the registered checks, which always run against /repo itself
    _tag = hashlib.sha1(os.environ["VERIF_REPO"].encode()).hexdigest()[:10]
    WORK = ROOT / ".work" / f"mut-{_tag}"
    EVIDENCE = WORK / "evidence"
CORPUS = ROOT / "corpus"
KNOWN_FILE = ROOT / "known_findings.json"
STD_AXIOMS = {"propext", "Classical.choice", "Quot.sound"}
FORBIDDEN = re.compile(r"\b(sorry|admit|native_decide|bv_decide|implemented_by)\b|^\s*axiom\s|\bunsafe\s|maxHeartbeats\s+0\b")
TOL = Fraction(1, 2 ** 40)
DRIVER_TIMEOUT = float(os.environ.get("VERIF_DRIVER_TIMEOUT", "240"))


def repo_root() -> Path:
    return Path(os.environ.get("VERIF_REPO") or "/repo")


def source_changes():
    """files of the rpylib package whose syntax tree differs from the record of the commit the models were last validated
    against (anchors.json, tools/gen_anchors.py).  Only used to size the exploration and to inform the evidence."""
    rec = ROOT / "anchors.json"
    if not rec.exists():
        return None, []
    import importlib.util
    spec = importlib.util.spec_from_file_location("gen_anchors", ROOT / "tools" / "gen_anchors.py")
    ga = importlib.util.module_from_spec(spec)
    spec.loader.exec_module(ga)
    base = json.loads(rec.read_text())
    now = ga.fingerprints(repo_root())
    changed = sorted(k for k in set(base["files"]) | set(now) if base["files"].get(k) != now.get(k))
    return base.get("validated_repo_commit"), changed


BOOST = 3          # quick-tier budget multiplier when the tree under test differs from the validated record


def private_miss(e):
    """name of the PRIVATE rpylib attribute / function (leading underscore) whose absence made a HARNESS frame raise `e`, else None.
    A correspondence probe may read private tables of the implementation; when a refactoring renames or removes one, that probe's
    tie is unavailable on this tree — not an implementation failure and not an infrastructure error."""
    if not isinstance(e, (AttributeError, ImportError)):
        return None
    m = re.search(r"has no attribute '(_[A-Za-z][A-Za-z0-9_]*)'|cannot import name '(_[A-Za-z][A-Za-z0-9_]*)'", str(e))
    if not m or e.__traceback__ is None:
        return None
    tb = e.__traceback__
    while tb.tb_next is not None:
        tb = tb.tb_next
    if not os.path.abspath(tb.tb_frame.f_code.co_filename).startswith(str(ROOT / "harness")):
        return None                       # raised inside the implementation: a genuine failure of the code under test
    return m.group(1) or m.group(2)


class TieUnavailable(Exception):
    """a probe of the harness needed a PRIVATE attribute / function of rpylib that the tree under test no longer has"""


class Infra(Exception):
    """Infrastructure problem (exit 2) – never a verdict about the property."""


# ----------------------------------------------------------------------------- numbers on the wire
def fr(x) -> Fraction:
    """exact rational denoted by a float / int / Fraction / numpy scalar"""
    if isinstance(x, Fraction):
        return x
    if isinstance(x, int):
        return Fraction(x)
    x = float(x)
    if math.isinf(x) or math.isnan(x):
        raise ValueError(f"non-finite {x}")
    return Fraction(x)


def w(x) -> str:
    """wire form of a number (exact)"""
    if isinstance(x, str):
        return x
    if isinstance(x, float) and math.isinf(x):
        return "inf" if x > 0 else "-inf"
    f = fr(x)
    return str(f.numerator) if f.denominator == 1 else f"{f.numerator}/{f.denominator}"


def wl(xs) -> str:
    return "[" + ",".join(w(x) for x in xs) + "]"


def wll(xss) -> str:
    return "[" + ";".join(",".join(w(x) for x in xs) for xs in xss) + "]"


def rd(tok: str):
    """parse a wire rational"""
    if tok in ("inf", "-inf"):
        return math.inf if tok == "inf" else -math.inf
    return Fraction(tok)


def rdl(tok: str):
    inner = tok.strip()[1:-1]
    return [] if inner == "" else [rd(t) for t in inner.split(",")]


def rdll(tok: str):
    inner = tok.strip()[1:-1]
    if inner == "":
        return []
    return [[rd(t) for t in part.split(",")] if part else [] for part in inner.split(";")]


def close(py, lean, scale=None, tol=TOL) -> bool:
    """comparison rule for real outputs: |py - lean| <= tol * scale (scale defaults to max(1,|lean|))."""
    try:
        p = fr(py)
    except ValueError:
        return False
    l = fr(lean)
    s = fr(scale) if scale is not None else max(Fraction(1), abs(l))
    return abs(p - l) <= tol * s


def dyadic(rng: random.Random, bits=12, lo=-8, hi=8):
    """random dyadic rational with `bits` fractional bits in [lo, hi] as a float (exact)"""
    n = rng.randint(lo * 2 ** bits, hi * 2 ** bits)
    return n / 2 ** bits


# ----------------------------------------------------------------------------- Lean side
def _run(cmd, cwd, timeout):
    return subprocess.run(cmd, cwd=cwd, stdout=subprocess.PIPE, stderr=subprocess.STDOUT, text=True, timeout=timeout)


def lean_build(targets, timeout=3000):
    t0 = time.time()
    r = _run(["lake", "build", *targets], LEAN_DIR, timeout)
    return r.returncode == 0, r.stdout, time.time() - t0


def lean_audit(prop: str, timeout=1800, suffix=""):
    """Run Audit/<prop><suffix>.lean (a list of `#print axioms thm`). Returns (wanted, {name: [axioms]}, raw, rc)."""
    f = LEAN_DIR / "Audit" / f"{prop}{suffix}.lean"
    if not f.exists():
        raise Infra(f"missing {f}")
    r = _run(["lake", "env", "lean", str(f.relative_to(LEAN_DIR))], LEAN_DIR, timeout)
    out = r.stdout
    thms = {}
    for m in re.finditer(r"'([^']+)' depends on axioms: \[([^\]]*)\]", out):
        thms[m.group(1)] = [a.strip() for a in m.group(2).replace("\n", " ").split(",") if a.strip()]
    for m in re.finditer(r"'([^']+)' does not depend on any axioms", out):
        thms[m.group(1)] = []
    wanted = re.findall(r"^#print axioms\s+(\S+)", f.read_text(), flags=re.M)
    # `open` lets the audit file use short names; #print reports fully qualified ones
    full = {}
    for wname in wanted:
        for t, ax in thms.items():
            if t == wname or t.endswith("." + wname):
                full[wname] = ax
    return wanted, full, out, r.returncode


def lean_sources(prop: str):
    """Lean files whose text belongs to this property (grepped for forbidden constructs)."""
    files = []
    for sub in ("Model", "Proofs", "Lemmas", "Generated", "ProofsGen", "Basic"):
        d = LEAN_DIR / "RpylibModel" / sub
        if d.exists():
            files += sorted(d.rglob("*.lean"))
    # files that git does not track yet are somebody's work in progress (several builders share this directory): the textual
    # scan leaves them out — what they prove is not counted either, because a theorem only counts through `#print axioms` in
    # an audit file, where `sorryAx` would show.  In a snapshot of the committed tree every file is tracked.
    try:
        r = subprocess.run(["git", "ls-files", "--error-unmatch", "--"] + [str(f) for f in files], cwd=LEAN_DIR,
                           capture_output=True, text=True, timeout=60)
        if r.returncode != 0:
            r2 = subprocess.run(["git", "ls-files", "--"] + [str(f.relative_to(LEAN_DIR)) for f in files], cwd=LEAN_DIR,
                                capture_output=True, text=True, timeout=60)
            if r2.returncode == 0 and r2.stdout.strip():
                tracked = {(LEAN_DIR / l).resolve() for l in r2.stdout.split("\n") if l}
                files = [f for f in files if f.resolve() in tracked]
    except Exception:
        pass
    return files


def strip_comments(text: str) -> str:
    text = re.sub(r"/-.*?-/", lambda m: "\n" * m.group(0).count("\n"), text, flags=re.S)
    return re.sub(r"--.*", "", text)


def forbidden_hits():
    hits = []
    for f in lean_sources(""):
        for i, line in enumerate(strip_comments(f.read_text()).splitlines(), 1):
            if FORBIDDEN.search(line):
                hits.append(f"{f.relative_to(LEAN_DIR)}:{i}: {line.strip()}")
    return hits


class Driver:
    """persistent `lake env lean --run Drivers/<name>.lean` speaking the line protocol"""

    def __init__(self, name: str):
        self.name = name
        path = LEAN_DIR / "Drivers" / f"{name}.lean"
        if not path.exists():
            raise Infra(f"missing driver {path}")
        self.p = subprocess.Popen(["lake", "env", "lean", "--run", f"Drivers/{name}.lean"], cwd=LEAN_DIR,
                                  stdin=subprocess.PIPE, stdout=subprocess.PIPE, stderr=subprocess.PIPE,
                                  text=True, bufsize=1)
        self.n = 0

    def ask(self, line: str) -> str:
        assert "\n" not in line
        try:
            self.p.stdin.write(line + "\n")
            self.p.stdin.flush()
            # one answer line per request: nothing is buffered on our side before the request, so the descriptor can be
            # polled; a driver that does not answer in time is an infrastructure problem (exit 2), never a hang
            ready, _, _ = select.select([self.p.stdout], [], [], DRIVER_TIMEOUT)
            if not ready:
                self.p.kill()
                raise Infra(f"Lean driver {self.name} did not answer within {DRIVER_TIMEOUT}s on request {line[:300]!r}")
            out = self.p.stdout.readline()
        except BrokenPipeError:
            out = ""
        if out == "":
            err = self.p.stderr.read() if self.p.stderr else ""
            raise Infra(f"Lean driver {self.name} died on request {line[:200]!r}: {err[:2000]}")
        self.n += 1
        return out.rstrip("\n")

    def batch(self, lines):
        return [self.ask(l) for l in lines]

    def close(self):
        try:
            self.p.stdin.close()
            self.p.wait(timeout=20)
        except Exception:
            self.p.kill()


# ----------------------------------------------------------------------------- run context
class Ctx:
    def __init__(self, prop: str, tier: str, seed: int):
        self.prop, self.tier, self.seed = prop, tier, seed
        self.rng = random.Random(f"{prop}:{seed}")
        self.t0 = time.time()
        self.evaluations = 0
        self._distinct = set()
        self.branches = Counter()
        self.samples = []
        self.failures = []          # dicts: kind, probe, cls, input, detail
        self.known_hits = {}        # id -> count
        self.excluded_small_margin = 0
        self.notes = []
        self._drivers = {}
        self.known = [k for k in load_known() if k.get("property") == prop]
        self.work = WORK / prop
        self.work.mkdir(parents=True, exist_ok=True)
        self.thorough = tier == "thorough"
        self.validated_commit, self.changed_files = source_changes()
        self.boost = bool(self.changed_files) and not self.thorough and os.environ.get("VERIF_NO_BOOST") != "1"

    # budgets: n(quick, thorough)
    def n(self, quick, thorough):
        if self.thorough:
            return thorough
        if self.boost and type(quick) is int and type(thorough) is int and thorough > quick:
            return min(thorough, BOOST * quick)
        return quick

    def driver(self, name=None) -> Driver:
        name = name or self.prop
        if name not in self._drivers:
            self._drivers[name] = Driver(name)
        return self._drivers[name]

    def lean(self, line: str, name=None) -> str:
        return self.driver(name).ask(line)

    def count(self, probe: str, inp, nontrivial=True, branch=None):
        """account one evaluated case; `inp` must be JSON-able (canonical form of the input)"""
        self.evaluations += 1
        self.branches[probe] += 1
        if branch:
            self.branches[f"{probe}:{branch}"] += 1
        if nontrivial:
            h = hashlib.sha1(json.dumps([probe, inp], sort_keys=True, default=str).encode()).hexdigest()
            self._distinct.add(h)
        if len(self.samples) < 12 and (self.branches[probe] <= 2):
            self.samples.append({"probe": probe, "input": _short(inp)})

    def fail(self, kind: str, probe: str, inp, detail, cls=None, mirrors_model=None):
        """record a failure. kind in {"oracle","corr","proof"}. cls: classification used to match known findings.
        mirrors_model: for oracle failures inside a known-faulty region, whether the implementation's value still
        equals the model's (recorded) faulty value; False => never suppressed."""
        assert kind in ("oracle", "corr", "proof")
        exc = sys.exc_info()[1]
        priv = private_miss(exc) if exc is not None else None
        if priv is not None:
            # the harness itself tripped over a private name that this tree no longer has (see `private_miss`)
            msg = f"tie unavailable: probe {probe} needs the private name {priv}, which this tree does not have"
            if msg not in self.notes:
                self.notes.append(msg)
            self.branches[f"tie_unavailable:{probe}"] += 1
            if not self.thorough and os.environ.get("VERIF_NO_BOOST") != "1":
                self.boost = True
            return
        self.failures.append({"kind": kind, "probe": probe, "cls": cls or {}, "input": inp,
                              "detail": detail, "mirrors_model": mirrors_model})

    def guard(self, probe, inp, fn, *a, **k):
        """run fn; an exception raised by the implementation on an input is itself recorded as an oracle failure of
        probe `<probe>.raises` (whether crashing violates the property is decided by the caller's cls/known list)."""
        try:
            return True, fn(*a, **k)
        except (Infra, TieUnavailable):
            raise
        except Exception as e:  # noqa
            priv = private_miss(e)
            if priv is not None:
                msg = f"tie unavailable: probe {probe} needs the private name {priv}, which this tree does not have"
                if msg not in self.notes:
                    self.notes.append(msg)
                self.branches[f"tie_unavailable:{probe}"] += 1
                raise TieUnavailable(msg) from None
            return False, e

    def close(self):
        for d in self._drivers.values():
            d.close()


def _short(x, limit=600):
    s = json.dumps(x, default=str)
    return x if len(s) <= limit else s[:limit] + "…"


def load_known():
    out = []
    if KNOWN_FILE.exists():
        out += json.loads(KNOWN_FILE.read_text()).get("findings", [])
    d = ROOT / "known_findings.d"          # per-property files while a check is being developed; merged on integration
    if d.exists():
        for f in sorted(d.glob("*.json")):
            out += json.loads(f.read_text()).get("findings", [])
    return out


def match_known(entry, failure) -> bool:
    if entry.get("status") != "known":
        return False
    if entry.get("probe") != failure["probe"]:
        return False
    if failure.get("mirrors_model") is False:
        return False
    cls = failure.get("cls") or {}
    for k, allowed in (entry.get("input_class") or {}).items():
        v = cls.get(k, None)
        if isinstance(allowed, list):
            if v not in allowed:
                return False
        elif isinstance(allowed, dict):  # {"min":..,"max":..}
            if v is None or ("min" in allowed and v < allowed["min"]) or ("max" in allowed and v > allowed["max"]):
                return False
        elif v != allowed:
            return False
    return True
