"""py2lean — a translator from a small pure subset of Python ("PyLite") to Lean 4 definitions.

Purpose (DESIGN.md §9): besides the behavioural correspondence, a part of the model is *regenerated from /repo's source on
every run*: the functions listed in harness/srctie.py are parsed with `ast` from the current working tree, translated to Lean
definitions over `Int` (Python `int`, unbounded) and `Rat` (Python `float`, read as the exact real number it denotes, the
same convention as the hand-written model), written to lean/RpylibModel/Generated/Src<prop>.lean, and the theorems of
lean/RpylibModel/ProofsGen/Src<prop>.lean — property statements about *those generated definitions*, and their equality with
the hand-written model — are re-checked by `lake build`.

The subset
  statements   : `x = e`, `a, b = e1, e2`, `q, r = divmod(a, b)`, `a, b = f(..)`, `x += e` (and -=, *=), `if/elif/else`,
                 `return e`, `return e1, e2`, `pass`, docstrings, `raise` (the branch becomes the function's error value,
                 see `err`), `assert` is ignored.  PyLite 2: `for x in <iterable>:` whose body only assigns (no return / break
                 / continue) becomes a `List.foldl` over the iterable with the assigned outer variables as state;
                 `xs[i] = v` on a list-typed local rebinds it (`setAt`); `x.pop(i)` as a statement.  No while loops, no
                 attribute stores.
  expressions  : integer / float / bool literals, names, `self.attr` (becomes a parameter `self_attr`), + - * / // % **,
                 unary - and not, comparisons (chains), and/or, `a if c else b`, tuples, subscripts with literal index of a
                 tuple-typed name, calls of: isqrt, abs, max, min (2 arguments), pow(x, n), divmod, int (of an int), float,
                 np.maximum, np.minimum, np.abs, other functions of the same translation unit (by bare name, `Class.method`
                 or `self.method`), and enum member tests `self.attr == Enum.MEMBER` / `in (Enum.A, Enum.B)` (become Bool
                 parameters `self_attr_is_MEMBER`).
  lists        : types `List Rat`, `List Int`, `List (..)`: list / tuple literals where a list is expected, `xs[i]` (negative
                 indices too), `xs[a:]`, `xs[:b]`, `len`, `sum`, `np.sum`, `np.prod`, `math.prod`, `np.zeros(n)`, `np.insert`,
                 `np.cumsum`, `np.searchsorted`, `list(..)`, `tuple(..)`, `np.array(..)` (identity), list comprehensions and
                 generator expressions (one `for`, optional `if`s) over `range`, `zip`, `enumerate`,
                 `product(xs, repeat=n)` or a list; function values: `partial(f, a, ..)`, a bare reference to a declared
                 opaque callable, locals of function type; optional parameters (`opt:<type>`: `x is None` becomes a Bool
                 parameter `x_none`), default values and keyword arguments in calls of functions of the same unit.
  recursion    : a function that calls itself is translated with a fuel argument (`partial` would hide it from proofs);
                 the fuel-free wrapper starts with the fuel given in the spec.
Anything else raises `Untranslatable` with the source position: the source tie of that function is then *unavailable* (the
behavioural correspondence remains), never silently approximated.

Semantics chosen (each is stated in the generated file's header):
  `//`, `%`   -> Int.fdiv / Int.fmod (floor division, sign of the divisor: Python's)      [Int only]
  `/`         -> Rat division (Python raises ZeroDivisionError where Lean's Rat gives 0: the domain is the caller's)
  `**`        -> `^` with a Nat exponent: literal, or `Int.toNat` of an Int expression (Python returns a float for a negative
                 exponent: outside the subset's domain)
  isqrt       -> Nat.sqrt of `Int.toNat` (Python raises for negative arguments)
  float ops   -> exact rational arithmetic (rounding is not modelled; same convention as the hand-written model)
"""
from __future__ import annotations

import ast
import textwrap
from fractions import Fraction


class Untranslatable(Exception):
    pass


INT, RAT, BOOL, NUM = "Int", "Rat", "Bool", "num"      # NUM: a numeric literal, elaborated by Lean from its context

LEAN_KEYWORDS = {"at", "from", "have", "show", "fun", "end", "open", "in", "let", "do", "then", "else", "if", "match",
                 "with", "by", "where", "local", "instance", "def", "theorem", "max", "min", "abs", "prefix", "infix",
                 "notation", "namespace", "section", "variable", "universe", "export", "import", "mutual", "structure",
                 "class", "inductive", "deriving", "macro", "syntax", "λ", "Type", "Prop", "Sort", "omega", "pi"}


def is_list(t) -> bool:
    return isinstance(t, str) and t.startswith("List ")


def _strip_parens(t: str) -> str:
    t = t.strip()
    while t.startswith("(") and t.endswith(")"):
        depth, ok = 0, True
        for i, ch in enumerate(t):
            depth += ch == "("
            depth -= ch == ")"
            if depth == 0 and i < len(t) - 1:
                ok = False
                break
        if not ok:
            break
        t = t[1:-1].strip()
    return t


def elem_of(t: str) -> str:
    return _strip_parens(t[5:])


def atom(t: str) -> str:
    return t if all(c.isalnum() or c == "_" for c in t) else f"({t})"


def list_of(t: str) -> str:
    return "List " + atom(t)


def split_top(t: str, sep: str) -> list[str]:
    """split a type at the top-level occurrences of `sep` (× or →)"""
    out, depth, cur = [], 0, ""
    for ch in t:
        if ch == "(":
            depth += 1
        elif ch == ")":
            depth -= 1
        if ch == sep and depth == 0:
            out.append(cur.strip())
            cur = ""
        else:
            cur += ch
    out.append(cur.strip())
    return out


class _Yield(ast.stmt):
    """synthetic last statement of a loop body: the value of the body is the tuple of the state variables"""
    _fields = ()

    def __init__(self, names):
        super().__init__()
        self.names = names


def lname(n: str) -> str:
    n = n.lstrip("_") or "u"
    return n + "'" if n in LEAN_KEYWORDS else n


class Fn:
    """one function to translate: where it is, how its parameters are typed"""

    def __init__(self, qualname, params=None, ret=None, self_attrs=None, enum_attrs=None, fuel=None, lean_name=None,
                 err=None, consts=None, fn_params=None, const_calls=None, opaque_fns=None, const_exprs=None, opaque_index=None):
        self.qualname = qualname                  # "Class.method" or "function"
        self.params = params or {}                # python parameter name -> "Int" | "Rat" | "Bool" (overrides annotations)
        self.ret = ret                            # Lean return type, e.g. "Int", "Rat", "Int × Int"
        self.self_attrs = self_attrs or {}        # attribute name -> Lean type; becomes a parameter self_<attr>
        self.enum_attrs = enum_attrs or {}        # attribute name -> enum class name (tests become Bool parameters)
        self.fuel = fuel                          # Lean expression (in the parameters) bounding the recursion depth
        self.lean_name = lean_name or qualname.replace(".", "_").replace("__", "_").lstrip("_")
        self.err = err                            # Lean term returned where the Python code raises (None: raise is untranslatable)
        self.consts = consts or {}                # module-level / class-level constant names -> (Lean term, type)
        self.fn_params = fn_params or {}          # python callable name (e.g. "np.exp") -> Lean parameter name of type Rat → Rat
        self.const_calls = const_calls or {}      # normalised text of a call expression -> (Lean parameter name, type)
        self.opaque_fns = opaque_fns or {}        # python callable (e.g. "self._theta") -> (Lean parameter name, [arg types], ret type)
        self.const_exprs = const_exprs or {}      # normalised text of any expression (e.g. "a==-np.inf") -> (Lean parameter name, type)
        self.opaque_index = opaque_index or {}    # name of an object parameter -> (Lean function parameter, index type, value type): obj[i]
        # parameter types: "Int" | "Rat" | "Bool", "obj" (an object only used through the opaque_* / const_* tables: no binder),
        # "fn:<Lean function type>" (a callable parameter, e.g. "fn:Rat → Rat → Rat")


class Unit:
    """translation unit: the functions of one Python file"""

    def __init__(self, path, fns):
        self.path = path
        self.fns = {f.qualname: f for f in fns}


class _Tr(ast.NodeVisitor):
    def __init__(self, unit: Unit, fn: Fn, node: ast.FunctionDef, cls: str | None):
        self.unit, self.fn, self.node, self.cls = unit, fn, node, cls
        self.env: dict[str, str] = {}             # local name -> type
        self.extra_params: list[tuple[str, str]] = []   # (lean name, type) discovered in the body (self attrs, enum tests)
        self.recursive = False
        self.tmp = 0
        self.alias: dict[str, str] = {}           # local name -> dotted object path it stands for (e.g. params -> self.parameters)
        self.none_flag: dict[str, str] = {}       # optional parameter name -> Lean Bool term "it is None here"
        self.state_types: list[str] | None = None  # inside a loop body: the types of the state variables (for _Yield)
        self.yield_types: list[str] | None = None

    # ---- helpers -------------------------------------------------------------------------------------------------
    def bad(self, node, why):
        raise Untranslatable(f"{self.unit.path}:{getattr(node, 'lineno', '?')}: {self.fn.qualname}: {why}")

    def add_param(self, name, ty):
        if (name, ty) not in self.extra_params:
            self.extra_params.append((name, ty))

    def fresh(self, base="t"):
        self.tmp += 1
        return f"{base}_{self.tmp}"

    def coerce(self, s, ty, want):
        if ty == want or ty == NUM or want is None:
            return s
        if ty == INT and want == RAT:
            return f"(({s} : Int) : Rat)"
        if ty == BOOL and want in (INT, RAT, NUM):
            return f"(if {s} then 1 else 0)"
        if is_list(ty) and is_list(want) and elem_of(ty) in (INT, NUM) and elem_of(want) == RAT:
            return f"(Rpylib.Py.castList {s})"
        if is_list(ty) and is_list(want) and elem_of(ty) == NUM:
            return f"({s} : {want})"
        return s

    def expr_as(self, e, want):
        """translate `e` where a value of type `want` is expected: a tuple / list literal is a list when a list is wanted"""
        if want and want.startswith("fn:"):
            want = want[3:]
        if want and is_list(want) and isinstance(e, (ast.Tuple, ast.List)):
            et = elem_of(want)
            parts = [self.expr_as(x, et) for x in e.elts]
            return "[" + ", ".join(parts) + "]"
        s, t = self.expr(e)
        if t and t.startswith("fn:"):
            return s
        if t == NUM and want:
            return f"({s} : {want})"
        return self.coerce(s, t, want)

    # ---- iterables: return (lean list term, element type) ----------------------------------------------------------
    def iterable(self, e) -> tuple[str, str]:
        if isinstance(e, ast.Call):
            fd = _dotted(e.func)
            if fd == "range" and 1 <= len(e.args) <= 2 and not e.keywords:
                if len(e.args) == 1:
                    lo, hi = "0", self.expr_as(e.args[0], INT)
                else:
                    lo, hi = self.expr_as(e.args[0], INT), self.expr_as(e.args[1], INT)
                return f"(Rpylib.Py.range {lo} {hi})", INT
            if fd == "zip" and len(e.args) >= 2 and not e.keywords:
                parts = [self.iterable(a) for a in e.args]
                term, ty = parts[-1]
                for s_, t_ in reversed(parts[:-1]):
                    term, ty = f"(List.zip {s_} {term})", f"{atom(t_)} × {ty}"
                return term, ty
            if fd == "enumerate" and len(e.args) == 1 and not e.keywords:
                s_, t_ = self.iterable(e.args[0])
                return f"(Rpylib.Py.enumerate {s_})", f"Int × {atom(t_) if '×' in t_ else t_}"
            if fd in ("product", "itertools.product") and len(e.args) == 1 and len(e.keywords) == 1 \
                    and e.keywords[0].arg == "repeat":
                s_, t_ = self.iterable(e.args[0])
                n = self.expr_as(e.keywords[0].value, INT)
                return f"(Rpylib.Py.product {s_} (Int.toNat {n}))", list_of(t_)
        if isinstance(e, (ast.List, ast.Tuple)):
            parts = [self.expr(x) for x in e.elts]
            tys = {t for _, t in parts}
            et = RAT if RAT in tys else INT
            if not tys <= {INT, RAT, NUM}:
                self.bad(e, "literal list of non-numbers")
            return "[" + ", ".join(self.coerce(s_, t_, et) if t_ != NUM else f"({s_} : {et})" for s_, t_ in parts) + "]", et
        s_, t_ = self.expr(e)
        if is_list(t_):
            return s_, elem_of(t_)
        self.bad(e, f"iteration over a value of type {t_}")

    def bind_target(self, tgt, ty, tmp) -> list[str]:
        """let-lines binding the names of a loop / comprehension target to the components of `tmp : ty` (updates env)"""
        if isinstance(tgt, ast.Name):
            self.env[tgt.id] = ty
            return [f"let {lname(tgt.id)} : {ty} := {tmp}"]
        if isinstance(tgt, (ast.Tuple, ast.List)):
            tys = split_top(_strip_parens(ty), "×")
            n = len(tgt.elts)
            if len(tys) < n:
                self.bad(tgt, f"cannot unpack a {ty} into {n} names")
            if len(tys) > n:                      # right-nested product: the last name takes the rest
                tys = tys[:n - 1] + [" × ".join(tys[n - 1:])]
            lines = []
            for i, (x, t_) in enumerate(zip(tgt.elts, tys)):
                lines += self.bind_target(x, _strip_parens(t_), self.proj(tmp, i, n))
            return lines
        self.bad(tgt, "loop target")

    def comprehension(self, e):
        if len(e.generators) != 1 or e.generators[0].is_async:
            self.bad(e, "comprehension with several generators")
        g = e.generators[0]
        it, et = self.iterable(g.iter)
        saved = dict(self.env)
        tmp = self.fresh("it")
        lines = self.bind_target(g.target, et, tmp)
        conds = [self.prop(c) for c in g.ifs]
        body, bt = self.expr(e.elt)
        if bt == NUM:
            body, bt = f"({body} : Int)", INT
        self.env = saved
        binds = "; ".join(lines)
        if conds:
            it = f"(List.filter (fun ({tmp} : {et}) => {binds}; decide ({' ∧ '.join(conds)})) {it})"
        return f"(List.map (fun ({tmp} : {et}) => {binds}; {body}) {it})", list_of(bt)

    def join_num(self, node, a, ta, b, tb):
        """common numeric type of two operands, with the coerced operand strings"""
        if ta == BOOL:
            a, ta = f"(if {a} then 1 else 0)", NUM
        if tb == BOOL:
            b, tb = f"(if {b} then 1 else 0)", NUM
        if ta == tb:
            return a, b, ta
        if ta == NUM:
            return a, b, tb
        if tb == NUM:
            return a, b, ta
        if {ta, tb} == {INT, RAT}:
            return self.coerce(a, ta, RAT), self.coerce(b, tb, RAT), RAT
        self.bad(node, f"operands of types {ta} and {tb}")

    # ---- expressions: return (lean string, type) -----------------------------------------------------------------
    def expr(self, e) -> tuple[str, str]:
        if self.fn.const_exprs:
            key = _norm_expr(e)
            if key in self.fn.const_exprs:
                nm, ty = self.fn.const_exprs[key]
                self.add_param(nm, ty)
                return nm, ty
        if isinstance(e, ast.Constant):
            v = e.value
            if isinstance(v, bool):
                return ("true" if v else "false"), BOOL
            if isinstance(v, int):
                return (str(v) if v >= 0 else f"({v})"), NUM
            if isinstance(v, float):
                fr = Fraction(v)
                if fr.denominator == 1:
                    return f"({fr.numerator} : Rat)", RAT
                return f"(({fr.numerator} : Rat) / {fr.denominator})", RAT
            self.bad(e, f"constant {v!r}")
        if isinstance(e, ast.Name):
            if e.id in self.env:
                return lname(e.id), self.env[e.id]
            if e.id in self.fn.consts:
                return self.fn.consts[e.id]
            self.bad(e, f"free name {e.id}")
        if isinstance(e, ast.Attribute):
            dotted = _dotted(e)
            if dotted and dotted.split(".")[0] in self.alias:
                root, _, rest = dotted.partition(".")
                dotted = self.alias[root] + "." + rest
            if dotted and dotted in self.fn.consts:
                return self.fn.consts[dotted]
            if dotted and dotted in self.fn.opaque_fns:         # a bare reference to a declared callable: a function value
                nm, atys, rty = self.fn.opaque_fns[dotted]
                self.add_param(nm, " → ".join(list(atys) + [rty]))
                return nm, "fn:" + " → ".join(list(atys) + [rty])
            if dotted and dotted.startswith("self.") and dotted[5:] in self.fn.self_attrs and "." in dotted[5:]:
                ty = self.fn.self_attrs[dotted[5:]]
                nm = "self_" + dotted[5:].replace("._", "_").replace(".", "_").lstrip("_")
                self.add_param(nm, ty)
                return nm, ty
            if isinstance(e.value, ast.Name) and e.value.id == "self":
                if e.attr in self.fn.self_attrs:
                    ty = self.fn.self_attrs[e.attr]
                    nm = "self_" + e.attr.lstrip("_")
                    self.add_param(nm, ty)
                    return nm, ty
                self.bad(e, f"self.{e.attr} is not declared in the spec")
            if isinstance(e.value, ast.Name) and e.value.id in ("np", "numpy", "math") and e.attr == "inf":
                self.bad(e, "infinity")
            self.bad(e, "attribute access")
        if isinstance(e, ast.UnaryOp):
            s, t = self.expr(e.operand)
            if isinstance(e.op, ast.USub):
                if t == BOOL:
                    self.bad(e, "minus of a bool")
                return f"(-{s})", t
            if isinstance(e.op, ast.Not):
                return f"(!{self.as_bool(e.operand)})", BOOL
            if isinstance(e.op, ast.UAdd):
                return s, t
            self.bad(e, "unary operator")
        if isinstance(e, ast.BinOp):
            a, ta = self.expr(e.left)
            b, tb = self.expr(e.right)
            op = e.op
            if isinstance(op, ast.Pow):
                if isinstance(e.right, ast.Constant) and isinstance(e.right.value, int) and e.right.value >= 0:
                    return f"({a} ^ ({e.right.value} : Nat))", (INT if ta == NUM else ta)
                if tb in (INT,) and ta in (INT, NUM):
                    base = a if ta == INT else f"({a} : Int)"
                    return f"({base} ^ (Int.toNat {b}))", INT
                self.bad(e, "power with a non-integer exponent")
            if isinstance(op, ast.FloorDiv) or isinstance(op, ast.Mod):
                if RAT in (ta, tb):
                    self.bad(e, "floor division / modulo of floats")
                a2 = a if ta != NUM else f"({a} : Int)"
                f = "Int.fdiv" if isinstance(op, ast.FloorDiv) else "Int.fmod"
                return f"({f} {a2} {b})", INT
            if isinstance(op, ast.Div):
                a2 = self.coerce(a, ta, RAT) if ta != NUM else f"({a} : Rat)"
                b2 = self.coerce(b, tb, RAT) if tb != NUM else f"({b} : Rat)"
                return f"({a2} / {b2})", RAT
            sym = {ast.Add: "+", ast.Sub: "-", ast.Mult: "*"}.get(type(op))
            if sym is None:
                self.bad(e, f"operator {type(op).__name__}")
            a, b, t = self.join_num(e, a, ta, b, tb)
            return f"({a} {sym} {b})", t
        if isinstance(e, ast.Compare) or isinstance(e, ast.BoolOp):
            return f"(decide {self.prop(e)})", BOOL
        if isinstance(e, ast.IfExp):
            c = self.prop(e.test)
            a, ta = self.expr(e.body)
            b, tb = self.expr(e.orelse)
            if ta == BOOL and tb == BOOL:
                return f"(if {c} then {a} else {b})", BOOL
            a, b, t = self.join_num(e, a, ta, b, tb)
            if t == NUM:
                t = INT
                a = f"({a} : Int)"
            return f"(if {c} then {a} else {b})", t
        if isinstance(e, (ast.ListComp, ast.GeneratorExp)):
            return self.comprehension(e)
        if isinstance(e, ast.List):
            s_, et = self.iterable(e)
            return s_, list_of(et)
        if isinstance(e, ast.Tuple):
            parts = [self.expr(x) for x in e.elts]
            parts = [(f"({s} : Int)" if t == NUM else s, INT if t == NUM else t) for s, t in parts]
            return "(" + ", ".join(s for s, _ in parts) + ")", " × ".join(atom(t) for _, t in parts)
        if isinstance(e, ast.Subscript):
            if isinstance(e.value, ast.Name) and e.value.id in self.fn.opaque_index:
                nm, ity, vty = self.fn.opaque_index[e.value.id]
                self.add_param(nm, f"{ity} → {vty}")
                si, ti = self.expr(e.slice)
                return f"({nm} {self.coerce(si, ti, ity) if ti != NUM else '(' + si + ' : ' + ity + ')'})", vty
            if isinstance(e.value, ast.Name) and e.value.id in self.env and "×" in self.env[e.value.id] \
                    and isinstance(e.slice, ast.Constant) and isinstance(e.slice.value, int):
                tys = [_strip_parens(t) for t in split_top(self.env[e.value.id], "×")]
                i = e.slice.value
                if i < 0:
                    i += len(tys)
                if not 0 <= i < len(tys):
                    self.bad(e, "tuple index out of range")
                return self.proj(lname(e.value.id), i, len(tys)), tys[i]
            vs, vt = self.expr(e.value)
            if is_list(vt):
                if isinstance(e.slice, ast.Slice):
                    if e.slice.step is not None:
                        self.bad(e, "slice with a step")
                    out = vs
                    if e.slice.upper is not None:
                        out = f"(Rpylib.Py.sliceTo {out} {self.expr_as(e.slice.upper, INT)})"
                        if e.slice.lower is not None:
                            self.bad(e, "slice with both bounds")
                    if e.slice.lower is not None:
                        out = f"(Rpylib.Py.sliceFrom {out} {self.expr_as(e.slice.lower, INT)})"
                    return out, vt
                return f"(Rpylib.Py.idx {vs} {self.expr_as(e.slice, INT)})", elem_of(vt)
            self.bad(e, "subscript")
        if isinstance(e, ast.Call):
            return self.call(e)
        self.bad(e, f"expression {type(e).__name__}")

    @staticmethod
    def proj(s, i, n):
        # right-nested products: (a, b, c) = (a, (b, c))
        out = s
        for _ in range(i):
            out = f"{out}.2"
        return f"{out}.1" if i < n - 1 else out

    def call(self, e: ast.Call):
        key = _norm_call(e)
        if key in self.fn.const_calls:
            nm, ty = self.fn.const_calls[key]
            self.add_param(nm, ty)
            return nm, ty
        f = e.func
        fdot = _dotted(f)
        if fdot and fdot.split(".")[0] in self.alias:
            fdot = self.alias[fdot.split(".")[0]] + fdot[len(fdot.split(".")[0]):]
        lst = self.list_call(e, fdot)
        if lst is not None:
            return lst
        if e.keywords and not self.unit_callee(e, fdot):
            self.bad(e, "keyword arguments")
        if fdot in self.fn.fn_params and len(e.args) == 1:
            nm = self.fn.fn_params[fdot]
            self.add_param(nm, "Rat → Rat")
            s, t = self.expr(e.args[0])
            return f"({nm} {self.coerce(s, t, RAT) if t != NUM else '(' + s + ' : Rat)'})", RAT
        if isinstance(f, ast.Name) and self.env.get(f.id, "").startswith("fn:"):
            tys = split_top(self.env[f.id][3:], "→")
            atys, rty = tys[:-1], tys[-1]
            if len(e.args) != len(atys):
                self.bad(e, f"call of {f.id} with {len(e.args)} arguments")
            parts = [self.expr_as(a, want) for a, want in zip(e.args, atys)]
            return "(" + " ".join([lname(f.id)] + parts) + ")", rty
        if fdot in self.fn.opaque_fns:
            nm, atys, rty = self.fn.opaque_fns[fdot]
            if len(e.args) != len(atys):
                self.bad(e, f"call of {fdot} with {len(e.args)} arguments")
            self.add_param(nm, " → ".join(list(atys) + [rty]))
            parts = [self.expr_as(a, want) for a, want in zip(e.args, atys)]
            return "(" + " ".join([nm] + parts) + ")", rty
        name = None
        if isinstance(f, ast.Name):
            name = f.id
        elif isinstance(f, ast.Attribute) and isinstance(f.value, ast.Name):
            if f.value.id in ("np", "numpy", "math"):
                name = f.value.id + "." + f.attr
            elif f.value.id == "self":
                name = (self.cls + "." if self.cls else "") + f.attr
            else:
                name = f.value.id + "." + f.attr
        if name is None:
            self.bad(e, "call of a computed function")
        if self.unit_callee(e, fdot):
            args = []
        else:
            args = [self.expr(a) for a in e.args]
        if name in ("isqrt", "math.isqrt") and len(args) == 1:
            s, t = args[0]
            if t == RAT:
                self.bad(e, "isqrt of a float")
            return f"(Rpylib.Py.isqrt {s})", INT
        if name in ("abs", "np.abs", "numpy.abs", "math.fabs") and len(args) == 1:
            s, t = args[0]
            if t == RAT:
                return f"(Rpylib.Py.rabs {s})", RAT
            return f"(Rpylib.Py.iabs {s})", INT
        if name in ("max", "min", "np.maximum", "np.minimum", "numpy.maximum", "numpy.minimum") and len(args) == 2:
            a, b, t = self.join_num(e, args[0][0], args[0][1], args[1][0], args[1][1])
            if t == NUM:
                t, a = INT, f"({a} : Int)"
            which = "max" if "max" in name else "min"
            fn = {(RAT, "max"): "Rpylib.Py.rmax", (RAT, "min"): "Rpylib.Py.rmin",
                  (INT, "max"): "Rpylib.Py.imax", (INT, "min"): "Rpylib.Py.imin"}.get((t, which))
            if fn is None:
                self.bad(e, f"{which} of {t}")
            return f"({fn} {a} {b})", t
        if name == "pow" and len(args) == 2 and isinstance(e.args[1], ast.Constant) and isinstance(e.args[1].value, int) \
                and e.args[1].value >= 0:
            s, t = args[0]
            return f"({s} ^ ({e.args[1].value} : Nat))", (INT if t == NUM else t)
        if name == "int" and len(args) == 1 and args[0][1] in (INT, NUM):
            return args[0][0], INT
        if name == "float" and len(args) == 1:
            s, t = args[0]
            return (self.coerce(s, t, RAT) if t != NUM else f"({s} : Rat)"), RAT
        if name == "divmod" and len(args) == 2:
            (a, ta), (b, tb) = args
            if RAT in (ta, tb):
                self.bad(e, "divmod of floats")
            a2 = a if ta != NUM else f"({a} : Int)"
            return f"(Int.fdiv {a2} {b}, Int.fmod {a2} {b})", "Int × Int"
        # a function of the same translation unit
        for cand in (name, (self.cls + "." + name) if self.cls and "." not in name else None):
            if cand and cand in self.unit.fns:
                callee = self.unit.fns[cand]
                sig = _signature(self.unit, callee)
                given = dict(zip([n for n, _ in sig["py_params"]], e.args))
                if len(e.args) > len(sig["py_params"]):
                    self.bad(e, f"call of {cand} with {len(e.args)} arguments")
                for kw in e.keywords:
                    if kw.arg is None or kw.arg in given or kw.arg not in dict(sig["py_params"]):
                        self.bad(e, f"keyword argument {kw.arg} of {cand}")
                    given[kw.arg] = kw.value
                parts = []
                for pn, want in sig["py_params"]:
                    node_ = given.get(pn, sig["defaults"].get(pn))
                    if node_ is None:
                        self.bad(e, f"call of {cand}: no value for parameter {pn}")
                    if want.startswith("opt:"):
                        inner = want[4:]
                        if isinstance(node_, ast.Constant) and node_.value is None:
                            parts += [f"(default : {inner})", "true"]
                        elif isinstance(node_, ast.Name) and node_.id in self.none_flag:
                            parts += [self.expr_as(node_, inner), self.none_flag[node_.id]]
                        else:
                            parts += [self.expr_as(node_, inner), "false"]
                    elif want == "obj":
                        continue
                    else:
                        parts.append(self.expr_as(node_, want))
                # the callee's self-attribute / enum parameters are passed through (must be declared for the caller too)
                for nm, ty in sig["extra"]:
                    self.add_param(nm, ty)
                    parts.append(nm)
                if cand == self.fn.qualname:
                    self.recursive = True
                    # the extra parameters of the function being translated are only known at the end: placeholder, filled
                    # in by `_signature`.  A flag that describes one python parameter (e.g. `a==-np.inf`) is passed on only
                    # when that parameter is passed on unchanged; a different (Rat-valued, hence finite) argument makes it false.
                    over = {}
                    for key, (nm, ty) in self.fn.const_exprs.items():
                        for (pn, _), arg in zip(sig["py_params"], e.args):
                            if pn in key and not (isinstance(arg, ast.Name) and arg.id == pn) and ty == BOOL:
                                over[nm] = "false"
                    tag = "⟪EXTRA" + "".join(f"|{k}={v}" for k, v in sorted(over.items())) + "⟫"
                    return "(" + " ".join([callee.lean_name + "_fuel", "fuel"] + parts + [tag]) + ")", sig["ret"]
                head = callee.lean_name
                return "(" + " ".join([head] + parts) + ")", sig["ret"]
        self.bad(e, f"call of {name}")

    def unit_callee(self, e, fdot) -> bool:
        f = e.func
        name = None
        if isinstance(f, ast.Name):
            name = f.id
        elif isinstance(f, ast.Attribute) and isinstance(f.value, ast.Name):
            name = ((self.cls + ".") if (f.value.id == "self" and self.cls) else (f.value.id + ".")) + f.attr
        return bool(name) and (name in self.unit.fns or (self.cls and "." not in name and self.cls + "." + name in self.unit.fns))

    def list_call(self, e, fdot):
        """built-ins on lists; None when `e` is not one of them"""
        a, kw = e.args, {k.arg: k.value for k in e.keywords}
        if fdot == "len" and len(a) == 1 and not kw:
            s_, t_ = self.expr(a[0])
            if is_list(t_):
                return f"((List.length {s_} : Nat) : Int)", INT
            self.bad(e, f"len of a {t_}")
        if fdot in ("sum", "np.sum", "numpy.sum", "math.fsum") and len(a) == 1 and not kw:
            s_, et = self.iterable(a[0])
            if et == BOOL:
                self.bad(e, "sum of booleans")
            return f"(List.sum {s_})", et
        if fdot in ("np.prod", "numpy.prod", "math.prod") and len(a) == 1 and not kw:
            s_, et = self.iterable(a[0])
            return (f"(Rpylib.Py.rprod {s_})", RAT) if et == RAT else (f"(Rpylib.Py.iprod {s_})", INT)
        if fdot in ("np.zeros", "numpy.zeros") and len(a) + len([k for k in kw if k == "shape"]) == 1 and set(kw) <= {"shape", "dtype"}:
            n = a[0] if a else kw["shape"]
            return f"(Rpylib.Py.zeros {self.expr_as(n, INT)})", "List Rat"
        if fdot in ("np.insert", "numpy.insert") and len(a) == 3 and not kw:
            s_, t_ = self.expr(a[0])
            if not is_list(t_):
                self.bad(e, "np.insert into a non-list")
            return f"(Rpylib.Py.insertAt {s_} {self.expr_as(a[1], INT)} {self.expr_as(a[2], elem_of(t_))})", t_
        if fdot in ("np.cumsum", "numpy.cumsum") and len(a) == 1 and not kw:
            s_, et = self.iterable(a[0])
            return f"(Rpylib.Py.cumsum {self.coerce(s_, list_of(et), 'List Rat')})", "List Rat"
        if fdot in ("np.searchsorted", "numpy.searchsorted") and len(a) == 2 and not kw:
            s_, et = self.iterable(a[0])
            return f"(Rpylib.Py.searchsorted {self.coerce(s_, list_of(et), 'List Rat')} {self.expr_as(a[1], RAT)})", INT
        if fdot in ("list", "tuple", "np.array", "numpy.array", "np.asarray") and len(a) == 1 and not kw:
            if not isinstance(a[0], (ast.List, ast.Tuple, ast.ListComp, ast.GeneratorExp)) and fdot.startswith("n"):
                s0, t0 = self.expr(a[0])
                if t0 in (INT, RAT, NUM):              # np.array(x) of a number is that number
                    return s0, t0
                if is_list(t0):
                    return s0, t0
            s_, et = self.iterable(a[0])
            return s_, list_of(et)
        if fdot in ("max", "min") and len(a) >= 3 and not kw:
            parts = [self.expr(x) for x in a]
            tys = {t for _, t in parts}
            if not tys <= {INT, RAT, NUM}:
                self.bad(e, f"{fdot} of non-numbers")
            t_ = RAT if RAT in tys else INT
            fnm = {(RAT, "max"): "Rpylib.Py.rmax", (RAT, "min"): "Rpylib.Py.rmin", (INT, "max"): "Rpylib.Py.imax",
                   (INT, "min"): "Rpylib.Py.imin"}[(t_, fdot)]
            cs = [self.coerce(s_, ty_, t_) if ty_ != NUM else f"({s_} : {t_})" for s_, ty_ in parts]
            out = cs[0]
            for c_ in cs[1:]:
                out = f"({fnm} {out} {c_})"
            return out, t_
        if fdot in ("partial", "functools.partial") and len(a) >= 1 and not kw:
            fs, ft = self.expr(a[0])
            if not (ft and ft.startswith("fn:")):
                self.bad(e, "partial of something that is not a declared function")
            tys = split_top(ft[3:], "→")
            if len(a) - 1 >= len(tys) - 1 + 1:
                self.bad(e, "partial with too many arguments")
            parts = [self.expr_as(x, want) for x, want in zip(a[1:], tys)]
            return "(" + " ".join([fs] + parts) + ")", "fn:" + " → ".join(tys[len(a) - 1:])
        return None

    # ---- conditions: return a Lean Prop string -------------------------------------------------------------------
    def as_bool(self, e) -> str:
        s, t = self.expr(e)
        if t == BOOL:
            return s
        self.bad(e, f"truth value of a {t}")

    def enum_test(self, e):
        """self.attr == Enum.MEMBER / self.attr in (Enum.A, Enum.B) / not in  ->  Bool parameters"""
        if not (isinstance(e, ast.Compare) and len(e.ops) == 1):
            return None
        l, op, r = e.left, e.ops[0], e.comparators[0]
        if not (isinstance(l, ast.Attribute) and isinstance(l.value, ast.Name) and l.value.id == "self"
                and l.attr in self.fn.enum_attrs):
            return None
        enum = self.fn.enum_attrs[l.attr]

        def member(x):
            if isinstance(x, ast.Attribute) and isinstance(x.value, ast.Name) and x.value.id == enum:
                nm = f"self_{l.attr.lstrip('_')}_is_{x.attr}"
                self.add_param(nm, BOOL)
                return nm
            self.bad(x, f"expected a member of {enum}")
        if isinstance(op, (ast.Eq, ast.Is)):
            return f"({member(r)} = true)"
        if isinstance(op, (ast.NotEq, ast.IsNot)):
            return f"(¬ {member(r)} = true)"
        if isinstance(op, (ast.In, ast.NotIn)) and isinstance(r, (ast.Tuple, ast.List, ast.Set)):
            body = " ∨ ".join(f"{member(x)} = true" for x in r.elts)
            return f"({body})" if isinstance(op, ast.In) else f"(¬ ({body}))"
        return None

    def prop(self, e) -> str:
        if self.fn.const_exprs and _norm_expr(e) in self.fn.const_exprs:
            nm, ty = self.fn.const_exprs[_norm_expr(e)]
            self.add_param(nm, ty)
            return f"({nm} = true)" if ty == BOOL else f"({nm} ≠ 0)"
        et = self.enum_test(e)
        if et is not None:
            return et
        if isinstance(e, ast.Compare) and len(e.ops) == 1 and isinstance(e.ops[0], (ast.Is, ast.IsNot)) \
                and isinstance(e.comparators[0], ast.Constant) and e.comparators[0].value is None \
                and isinstance(e.left, ast.Name) and e.left.id in self.none_flag:
            flag = self.none_flag[e.left.id]
            return f"({flag} = true)" if isinstance(e.ops[0], ast.Is) else f"(¬ {flag} = true)"
        if isinstance(e, ast.Compare):
            parts = []
            left = e.left
            for op, right in zip(e.ops, e.comparators):
                a, ta = self.expr(left)
                b, tb = self.expr(right)
                sym = {ast.Lt: "<", ast.LtE: "≤", ast.Gt: ">", ast.GtE: "≥", ast.Eq: "=", ast.NotEq: "≠"}.get(type(op))
                if sym is None:
                    self.bad(e, f"comparison {type(op).__name__}")
                if ta == BOOL and tb == BOOL:
                    pass
                else:
                    a, b, t = self.join_num(e, a, ta, b, tb)
                    if t == NUM:
                        a = f"({a} : Int)"
                parts.append(f"{a} {sym} {b}")
                left = right
            return "(" + " ∧ ".join(parts) + ")"
        if isinstance(e, ast.BoolOp):
            sym = " ∧ " if isinstance(e.op, ast.And) else " ∨ "
            return "(" + sym.join(self.prop(v) for v in e.values) + ")"
        if isinstance(e, ast.UnaryOp) and isinstance(e.op, ast.Not):
            return f"(¬ {self.prop(e.operand)})"
        s, t = self.expr(e)
        if t == BOOL:
            return f"({s} = true)"
        if t in (INT, RAT):
            return f"({s} ≠ 0)"
        self.bad(e, f"condition of type {t}")

    # ---- statements: a block is translated to one Lean term ------------------------------------------------------
    def block(self, stmts, k) -> str:
        """translate `stmts` followed by the continuation `k` (a list of statements, possibly empty)"""
        stmts = list(stmts) + list(k)
        if not stmts:
            self.bad(self.node, "control reaches the end of the function without a return")
        s, rest = stmts[0], stmts[1:]
        if isinstance(s, ast.Expr) and isinstance(s.value, ast.Constant) and isinstance(s.value.value, str):
            return self.block(rest, [])
        if isinstance(s, (ast.Pass, ast.Assert)):
            return self.block(rest, [])
        if isinstance(s, ast.Return):
            if s.value is None:
                self.bad(s, "return without a value")
            v, t = self.expr(s.value)
            return self.ret_coerce(s, v, t)
        if isinstance(s, ast.Raise):
            if self.fn.err is None:
                self.bad(s, "raise (no error value declared in the spec)")
            return self.fn.err
        if isinstance(s, ast.AugAssign) and isinstance(s.target, ast.Name):
            binop = ast.BinOp(left=ast.Name(id=s.target.id, ctx=ast.Load()), op=s.op, right=s.value)
            ast.copy_location(binop, s)
            return self.block([ast.copy_location(ast.Assign(targets=[s.target], value=binop), s)] + rest, [])
        if isinstance(s, ast.AnnAssign) and isinstance(s.target, ast.Name) and s.value is not None:
            return self.block([ast.copy_location(ast.Assign(targets=[s.target], value=s.value), s)] + rest, [])
        if isinstance(s, ast.Assign):
            if len(s.targets) != 1:
                self.bad(s, "chained assignment")
            tgt = s.targets[0]
            if isinstance(tgt, ast.Name):
                dv = _dotted(s.value) if isinstance(s.value, (ast.Attribute, ast.Name)) else None
                if dv and dv.split(".")[0] in self.alias:
                    dv = self.alias[dv.split(".")[0]] + dv[len(dv.split(".")[0]):]
                if dv and dv.startswith("self.") and any(k.startswith(dv[5:] + ".") for k in self.fn.self_attrs):
                    saved_alias = dict(self.alias)            # an object alias (params = self.parameters): no value to bind
                    self.alias[tgt.id] = dv
                    body = self.block(rest, [])
                    self.alias = saved_alias
                    return body
                v, t = self.expr(s.value)
                if t == NUM:
                    v, t = f"({v} : Int)", INT
                saved, saved_flags = dict(self.env), dict(self.none_flag)
                self.env[tgt.id] = t
                if tgt.id in self.none_flag:
                    self.none_flag[tgt.id] = "false"
                body = self.block(rest, [])
                self.env, self.none_flag = saved, saved_flags
                return f"let {lname(tgt.id)} : {t[3:] if t.startswith('fn:') else t} := {v}\n{body}"
            if isinstance(tgt, ast.Tuple) and all(isinstance(x, ast.Name) for x in tgt.elts):
                v, t = self.expr(s.value)
                tmp = self.fresh()
                saved = dict(self.env)
                lines = [f"let {tmp} : {t} := {v}"]
                if is_list(t):                     # a1, a2 = a   (Python raises unless len(a) == 2: the domain is the caller's)
                    tys = [elem_of(t)] * len(tgt.elts)
                    for i, (x, ty) in enumerate(zip(tgt.elts, tys)):
                        lines.append(f"let {lname(x.id)} : {ty} := (Rpylib.Py.idx {tmp} {i})")
                else:
                    tys = [_strip_parens(x) for x in split_top(t, "×")]
                    if len(tys) != len(tgt.elts):
                        self.bad(s, "tuple unpacking of a non-tuple")
                    for i, (x, ty) in enumerate(zip(tgt.elts, tys)):
                        lines.append(f"let {lname(x.id)} : {ty} := {self.proj(tmp, i, len(tys))}")
                for x, ty in zip(tgt.elts, tys):
                    self.env[x.id] = ty
                body = self.block(rest, [])
                self.env = saved
                return "\n".join(lines) + "\n" + body
            if isinstance(tgt, ast.Subscript) and isinstance(tgt.value, ast.Name) and is_list(self.env.get(tgt.value.id, "")) \
                    and not isinstance(tgt.slice, ast.Slice):
                lt = self.env[tgt.value.id]
                new = f"(Rpylib.Py.setAt {lname(tgt.value.id)} {self.expr_as(tgt.slice, INT)} {self.expr_as(s.value, elem_of(lt))})"
                body = self.block(rest, [])
                return f"let {lname(tgt.value.id)} : {lt} := {new}\n{body}"
            self.bad(s, "assignment target")
        if isinstance(s, ast.Expr) and isinstance(s.value, ast.Call) and isinstance(s.value.func, ast.Attribute) \
                and s.value.func.attr == "pop" and isinstance(s.value.func.value, ast.Name) \
                and is_list(self.env.get(s.value.func.value.id, "")) and len(s.value.args) == 1 and not s.value.keywords:
            nm = s.value.func.value.id
            body = self.block(rest, [])
            return f"let {lname(nm)} : {self.env[nm]} := (Rpylib.Py.popAt {lname(nm)} {self.expr_as(s.value.args[0], INT)})\n{body}"
        if isinstance(s, _Yield):
            vals = []
            now = [self.env[n] for n in s.names]
            if self.yield_types is None:
                self.yield_types = now
            else:                                   # several paths reach the end of the body: join their types
                self.yield_types = [a_ if a_ == b_ else (RAT if {a_, b_} == {INT, RAT} else f"{a_}|{b_}")
                                    for a_, b_ in zip(self.yield_types, now)]
            for n, want in zip(s.names, self.state_types):
                vals.append(self.coerce(lname(n), self.env[n], want))
            return "(" + ", ".join(vals) + ")" if len(vals) != 1 else vals[0]
        if isinstance(s, ast.For):
            return self.for_loop(s, rest)
        if isinstance(s, ast.If):
            c = self.prop(s.test)
            saved, saved_flags = dict(self.env), dict(self.none_flag)
            a = self.block(s.body, rest)
            self.env, self.none_flag = dict(saved), dict(saved_flags)
            b = self.block(s.orelse, rest)
            self.env, self.none_flag = saved, saved_flags
            return f"if {c} then\n{textwrap.indent(a, '  ')}\nelse\n{textwrap.indent(b, '  ')}"
        self.bad(s, f"statement {type(s).__name__}")

    def for_loop(self, s: ast.For, rest) -> str:
        if s.orelse:
            self.bad(s, "for ... else")
        for n in ast.walk(s):
            if isinstance(n, (ast.Return, ast.Break, ast.Continue, ast.While, ast.Raise)):
                self.bad(n, f"{type(n).__name__} inside a for loop")
        assigned = []
        for n in ast.walk(s):
            tg = []
            if isinstance(n, ast.Assign):
                tg = n.targets
            elif isinstance(n, (ast.AugAssign, ast.AnnAssign)):
                tg = [n.target]
            elif isinstance(n, ast.Expr) and isinstance(n.value, ast.Call) and isinstance(n.value.func, ast.Attribute) \
                    and n.value.func.attr == "pop" and isinstance(n.value.func.value, ast.Name):
                tg = [n.value.func.value]
            for t_ in tg:
                for x in ast.walk(t_):
                    if isinstance(x, ast.Name) and x.id not in assigned:
                        assigned.append(x.id)
        state = [n for n in assigned if n in self.env]           # outer variables the body rebinds; the others are loop-local
        if not state:
            self.bad(s, "for loop that assigns no outer variable")
        it, et = self.iterable(s.iter)
        types = [self.env[n] for n in state]
        saved_outer = (dict(self.env), self.state_types, self.yield_types, dict(self.none_flag))
        body = None
        for _attempt in range(3):
            self.env = dict(saved_outer[0])
            for n, t_ in zip(state, types):
                self.env[n] = t_
            self.state_types = list(types)
            self.yield_types = None
            tmp, st = self.fresh("x"), self.fresh("st")
            lines = [f"let {lname(n)} : {t_} := {self.proj(st, i, len(state)) if len(state) > 1 else st}"
                     for i, (n, t_) in enumerate(zip(state, types))]
            lines += self.bind_target(s.target, et, tmp)
            inner = self.block(list(s.body) + [_Yield(state)], [])
            got = self.yield_types
            if got == types:
                body = "\n".join(lines) + "\n" + inner
                break
            new = []
            for a_, b_ in zip(types, got):
                if a_ == b_:
                    new.append(a_)
                elif {a_, b_} == {INT, RAT}:
                    new.append(RAT)
                else:
                    self.bad(s, f"a loop variable changes its type from {a_} to {b_}")
            types = new
        if body is None:
            self.bad(s, "the types of the loop variables do not stabilise")
        self.env, self.state_types, self.yield_types, self.none_flag = saved_outer[0], saved_outer[1], saved_outer[2], saved_outer[3]
        sty = " × ".join(atom(t_) for t_ in types)
        init = ", ".join(self.coerce(lname(n), self.env[n], t_) for n, t_ in zip(state, types))
        init = f"({init})" if len(state) > 1 else init
        res = self.fresh("loop")
        out = [f"let {res} : {sty} := List.foldl (fun ({st} : {sty}) ({tmp} : {et}) =>\n{textwrap.indent(body, '    ')}) {init} {it}"]
        saved = dict(self.env)
        for i, (n, t_) in enumerate(zip(state, types)):
            out.append(f"let {lname(n)} : {t_} := {self.proj(res, i, len(state)) if len(state) > 1 else res}")
            self.env[n] = t_
        tail = self.block(rest, [])
        self.env = saved
        return "\n".join(out) + "\n" + tail

    def ret_coerce(self, node, v, t):
        want = self.fn.ret
        if want is None:
            return v
        if "×" in want:
            return v
        if t == NUM:
            return f"({v} : {want})"
        if t == INT and want == RAT:
            return self.coerce(v, t, RAT)
        if t == BOOL and want in (INT, RAT):
            return f"(if {v} then 1 else 0)"
        return v


def _dotted(e):
    """'a.b.c' for a chain of attribute accesses on a name, else None"""
    parts = []
    while isinstance(e, ast.Attribute):
        parts.append(e.attr)
        e = e.value
    if isinstance(e, ast.Name):
        parts.append(e.id)
        return ".".join(reversed(parts))
    return None


def _norm_expr(e) -> str:
    try:
        return ast.unparse(e).replace(" ", "").replace("numpy.", "np.").replace("+np.inf", "np.inf")
    except Exception:
        return ""


def _norm_call(e: ast.Call) -> str:
    """normalised text of a call: `self.nu.integrate_against_x(-1, +1)` -> 'self.nu.integrate_against_x(-1, 1)'"""
    try:
        txt = ast.unparse(e)
    except Exception:
        return ""
    return txt.replace("+", "").replace(" ", "").replace("numpy.", "np.")


def _find(tree: ast.Module, qualname: str):
    parts = qualname.split(".")
    body, cls = tree.body, None
    if len(parts) == 2:
        for n in tree.body:
            if isinstance(n, ast.ClassDef) and n.name == parts[0]:
                body, cls = n.body, n.name
                break
        else:
            return None, None
    for n in body:
        if isinstance(n, ast.FunctionDef) and n.name == parts[-1]:
            return n, cls
    return None, None


_ANN = {"int": INT, "float": RAT, "bool": BOOL, "Real": RAT}
_sig_cache: dict = {}


def _signature(unit: Unit, fn: Fn):
    """python parameters (name, type) of fn, its return type, and the extra (self-attribute) parameters its body needs"""
    key = (id(unit), fn.qualname)
    if key in _sig_cache:
        return _sig_cache[key]
    node, cls = _find(unit.tree, fn.qualname)
    if node is None:
        raise Untranslatable(f"{unit.path}: function {fn.qualname} not found")
    a = node.args
    if a.vararg or a.kwarg or a.kwonlyargs or a.posonlyargs:
        raise Untranslatable(f"{unit.path}:{node.lineno}: {fn.qualname}: star / keyword-only parameters")
    params = []
    for p in a.args:
        if p.arg in ("self", "cls"):
            continue
        ty = fn.params.get(p.arg)
        if ty is None and p.annotation is not None and isinstance(p.annotation, ast.Name):
            ty = _ANN.get(p.annotation.id)
        if ty is None:
            raise Untranslatable(f"{unit.path}:{node.lineno}: {fn.qualname}: parameter {p.arg} has no declared type")
        params.append((p.arg, ty))
    names_ = [p.arg for p in a.args]
    defaults = dict(zip(names_[len(names_) - len(a.defaults):], a.defaults))
    ret = fn.ret
    if ret is None and isinstance(node.returns, ast.Name):
        ret = _ANN.get(node.returns.id)
    if ret is None:
        raise Untranslatable(f"{unit.path}:{node.lineno}: {fn.qualname}: return type not declared")
    sig = {"py_params": params, "ret": ret, "extra": [], "node": node, "cls": cls, "defaults": defaults}
    _sig_cache[key] = sig
    # translate the body once to discover the extra parameters (self attributes, enum tests)
    tr = _Tr(unit, fn, node, cls)
    tr.env = {n: (t[4:] if t.startswith("opt:") else t) for n, t in params}
    tr.none_flag = {n: lname(n) + "_none" for n, t in params if t.startswith("opt:")}
    saved_ret = fn.ret
    fn.ret = ret
    try:
        body = tr.block(node.body, [])
    finally:
        fn.ret = saved_ret
    order = ["self_" + a.replace("._", "_").replace(".", "_").lstrip("_") for a in fn.self_attrs] \
        + [nm for nm, _ in fn.const_calls.values()] + [nm for nm, _ in fn.const_exprs.values()] \
        + [nm for nm, _, _ in fn.opaque_fns.values()] + list(fn.fn_params.values())
    sig["extra"] = sorted(tr.extra_params, key=lambda nt: (order.index(nt[0]) if nt[0] in order else len(order), nt[0]))
    import re as _re

    def _fill(m):
        over = dict(kv.split("=") for kv in m.group(1).split("|") if kv)
        txt = " ".join(over.get(n, n) for n, _ in sig["extra"])
        return (" " + txt) if txt else ""
    body = _re.sub(r" ?⟪EXTRA((?:\|[^⟫|]+)*)⟫", _fill, body)
    sig["body"] = body
    sig["recursive"] = tr.recursive
    return sig


def _binder(n, t):
    if t.startswith("fn:"):
        return f"({lname(n)} : {t[3:]})"
    if t.startswith("opt:"):
        return f"({lname(n)} : {t[4:]}) ({lname(n)}_none : Bool)"
    return f"({lname(n)} : {t})"


def translate_unit(repo_root, unit: Unit, namespace: str):
    """Return (lean_text_of_definitions, report).  report[qualname] = "ok" | reason why it is untranslatable."""
    import pathlib
    src = (pathlib.Path(repo_root) / unit.path).read_text()
    unit.tree = ast.parse(src)
    _sig_cache.clear()
    out, report = [], {}
    for q, fn in unit.fns.items():
        try:
            sig = _signature(unit, fn)
        except Untranslatable as e:
            report[q] = str(e)
            continue
        except RecursionError:
            report[q] = f"{unit.path}: {q}: translator recursion limit"
            continue
        node = sig["node"]
        binders = " ".join(_binder(n, t) for n, t in sig["py_params"] if t != "obj")
        extra = " ".join(f"({n} : {t})" for n, t in sig["extra"])
        binders = (binders + " " + extra).strip()
        doc = f"/-- {unit.path}:{node.lineno}-{node.end_lineno} `{q}` (translated from the source by harness/py2lean.py) -/"
        body = textwrap.indent(sig["body"], "  ")
        if sig["recursive"]:
            if fn.fuel is None or fn.err is None:
                report[q] = f"{unit.path}:{node.lineno}: {q}: recursive function without `fuel` and `err` in the spec"
                continue
            inner = textwrap.indent(sig["body"], "    ")
            out.append(f"{doc}\ndef {fn.lean_name}_fuel (fuel : Nat) {binders} : {sig['ret']} :=\n  match fuel with\n"
                       f"  | 0 => {fn.err}\n  | fuel + 1 =>\n{inner}\n")
            names = " ".join([lname(n) + (f" {lname(n)}_none" if t.startswith("opt:") else "")
                              for n, t in sig["py_params"] if t != "obj"] + [n for n, _ in sig["extra"]])
            out.append(f"def {fn.lean_name} {binders} : {sig['ret']} := {fn.lean_name}_fuel ({fn.fuel}) {names}\n")
        else:
            out.append(f"{doc}\ndef {fn.lean_name} {binders} : {sig['ret']} :=\n{body}\n")
        report[q] = "ok"
    # callers of an untranslatable function are untranslatable too (their text mentions a missing definition)
    changed = True
    while changed:
        changed = False
        for q, fn in unit.fns.items():
            if report.get(q) != "ok":
                continue
            text = next((o for o in out if f"def {fn.lean_name} " in o or f"def {fn.lean_name}_fuel " in o), "")
            for q2, fn2 in unit.fns.items():
                if report.get(q2) not in (None, "ok") and q2 != q and (f"({fn2.lean_name} " in text or f"({fn2.lean_name}_fuel " in text):
                    report[q] = f"calls {q2}, which is untranslatable: {report[q2]}"
                    out = [o for o in out if not (f"def {fn.lean_name} " in o or f"def {fn.lean_name}_fuel " in o)]
                    changed = True
                    break
    return "\n".join(out), report
