"""py2lean — a translator from a small pure subset of Python ("PyLite") to Lean 4 definitions.

Purpose (DESIGN.md §9): besides the behavioural correspondence, a part of the model is *regenerated from /repo's source on
every run*: the functions listed in harness/srctie.py are parsed with `ast` from the current working tree, translated to Lean
definitions over `Int` (Python `int`, unbounded) and `Rat` (Python `float`, read as the exact real number it denotes, the
same convention as the hand-written model), written to lean/RpylibModel/Generated/Src<prop>.lean, and the theorems of
lean/RpylibModel/ProofsGen/Src<prop>.lean — property statements about *those generated definitions*, and their equality with
the hand-written model — are re-checked by `lake build`.

The subset
  statements   : `x = e`, `a, b = e1, e2`, `q, r = divmod(a, b)`, `a, b = f(..)`, `x += e` (and -=, *=), `if/elif/else`,
                 `return e`, `return e1, e2`, `pass`, docstrings, `raise` (the branch becomes the function's error value,
                 see `err`), `assert` is ignored.  PyLite 2: `for x in <iterable>:` whose body only assigns (no return / break
                 / continue) becomes a `List.foldl` over the iterable with the assigned outer variables as state;
                 `xs[i] = v` on a list-typed local rebinds it (`setAt`); `x.pop(i)` as a statement.  No while loops, no
                 attribute stores.
  expressions  : integer / float / bool literals, names, `self.attr` (becomes a parameter `self_attr`), + - * / // % **,
                 unary - and not, comparisons (chains), and/or, `a if c else b`, tuples, subscripts with literal index of a
                 tuple-typed name, calls of: isqrt, abs, max, min (2 arguments), pow(x, n), divmod, int (of an int), float,
                 np.maximum, np.minimum, np.abs, other functions of the same translation unit (by bare name, `Class.method`
                 or `self.method`), and enum member tests `self.attr == Enum.MEMBER` / `in (Enum.A, Enum.B)` (become Bool
                 parameters `self_attr_is_MEMBER`).
  lists        : types `List Rat`, `List Int`, `List (..)`: list / tuple literals where a list is expected, `xs[i]` (negative
                 indices too), `xs[a:]`, `xs[:b]`, `len`, `sum`, `np.sum`, `np.prod`, `math.prod`, `np.zeros(n)`, `np.insert`,
                 `np.cumsum`, `np.searchsorted`, `list(..)`, `tuple(..)`, `np.array(..)` (identity), list comprehensions and
                 generator expressions (one `for`, optional `if`s) over `range`, `zip`, `enumerate`,
                 `product(xs, repeat=n)` or a list; function values: `partial(f, a, ..)`, a bare reference to a declared
                 opaque callable, locals of function type; optional parameters (`opt:<type>`: `x is None` becomes a Bool
                 parameter `x_none`), default values and keyword arguments in calls of functions of the same unit.
                 (C12) `xs.index(v)` (`Rpylib.Py.indexOf`), `x = next((.. for .. if ..), None)` (first element of the
                 comprehension + a Bool local `x_none` read by `x is None` / `x is not None`), `xs[i], y = e1, e2`
                 (right-hand sides first, then the stores left to right).
  recursion    : a function that calls itself is translated with a fuel argument (`partial` would hide it from proofs);
                 the fuel-free wrapper starts with the fuel given in the spec.
  numpy vectors: (the `nd_*` methods; elementwise arithmetic itself is `pylite4_binop`, ufuncs of `fn_params` on a vector are
                 `List.map f`) `np.ceil / np.floor` (scalar or vector; the value as a float: `rceil`, `rfloor`), `math.ceil /
                 math.floor` (Int), `u.copy()`, `u.astype(int)` (truncation towards zero, `truncInt`) / `u.astype(float)`, and
                 the masked store `u[u <op> c] = v` — only on an array that this function built itself and that no other name
                 can see (`u = w.copy()`, an arithmetic result ..; flow-insensitive check `nd_require_owned`): then the in-place
                 store is a rebinding of `u`.
  constants    : `Unit(path, fns, consts={"THETA": "Rat"})`: module-level constants `THETA = <expr>` are translated from the
                 source to `def THETA : Rat := ..` and may be read by the functions of the unit;
                 `fn_params={"2**": "pow2"}`: `2 ** e` with a non-integer exponent is the function parameter `pow2 e`.
  PyLite 4     : 1-d numpy arrays as lists: element-wise `a * b`, `a - b`, `a / b` of two arrays and `c + a`, `a * c`, .. with a
                 float scalar (only the forms that are a TypeError on Python lists), `np.diff(x[, prepend=v])`, `np.append`
                 (ravels its arguments), `np.empty(shape=n)` (content = the opaque function `Rpylib.Py.uninit`),
                 `np.zeros_like`, `x.shape[0]`, `.size` of an array element (1), a numpy ufunc declared in `fn_params` applied
                 to an array (`List.map`), the single argument of a declared opaque callable passed by keyword.
                 Variate streams: an opaque callable declared with first argument type `@` is a sampler (each call returns a
                 fresh variate): its Lean parameter takes the tag [call site, positions in the enclosing loops /
                 comprehensions] (`List Int`) as first argument, so that different dynamic calls may return different values;
                 loops / comprehensions that contain such a call iterate over `enumerate` of their iterable.
  star products: (`iter_stmt`) literal lists of lists; `product(*xss)` / `zip(*xss)` of a list of lists (`Rpylib.Py.cartesian`,
                 `transpose`); a local bound to one of them is a one-shot iterator: only `next(x)` statements (drop the first
                 result) and ONE `for` over it are translatable; keyword arguments of a declared opaque callable whose parameter
                 names are given in `opts["opaque_kwargs"]`; `opts["static_tests"] = {"<test text>": True/False}`: an `if` with
                 that test is decided by the spec (the definition is the function specialised to that case — for code whose
                 variables change type with the case, e.g. `if dim == 1: h = [h]`; stated in the definition's doc line).
  objects      : (C13) `Fn(stores={"attr": type})`: the attributes are mutable state — `self.attr`, `self.attr = e`, `self.attr op= e`,
                 `self.attr[i] = v` act on a state variable whose value on entry is the parameter `self_attr`; a function that
                 ends without a value (or `return self`) returns the tuple of the final values.  Callers of such a function are
                 untranslatable.  A `for` whose body changes the list it iterates over *in place* is only translatable in the
                 form `for i, .. in enumerate(xs): .. xs[i] = v` (Python iterates live, the fold over a snapshot: they agree
                 there).  `Fn(ctor=[kw, ..])`: `super(..).__init__(kw=v, ..)` ends the translation, the constructed object is
                 the tuple of these arguments (`x = cls.__new__(cls)` is skipped).  `Fn("f#tag", block=(first, last[, n]),
                 result=expr)`: a *view* of the consecutive statements from the n-th one starting with `first` to the next one
                 starting with `last`, as a function of the declared `params`, value `expr`.  `Class.method@Type`: the
                 implementation registered with `@method.register` for a first parameter annotated `Type`.
                 `xs[::-1]`, `np.concatenate((a, [c], b))`, `a.size`, `[x, ..] * n`, `np.linspace(start, stop, num)`.
  PyLite 5     : (C09) nested `def f(u, ..): ..` (no decorators / defaults / recursion; parameters are floats unless annotated)
                 becomes a local function value `let f : Rat → .. := fun u .. => ..`; Python closures read the *current* value
                 of a captured variable, so a captured name that is assigned again after the `def` is untranslatable.
                 `factorial(n)` / `math.factorial(n)` of an int (`Rpylib.Py.factorial`, unbounded), `scipy.special.factorial` of
                 an int (as a float).  `float ** int-expression` (`^` with `Int.toNat`), `np.power(x, n)`.
                 `np.arange(stop)` / `np.arange(k, stop)` (k a literal >= 0) has the type `Rpylib.Py.I64Array`: numpy's
                 FIXED-WIDTH INTEGERS ARE NOT MODELLED (int64 arithmetic wraps, Lean's `Int` does not), so such an array is only
                 accepted where the result is a float array and no integer arithmetic happens: as the exponents of
                 `np.power(<float>, ks)` / `<float> ** ks` and as the argument of `scipy.special.factorial(ks)`; everything else
                 (`ks * ks`, `np.cumprod(ks)`, `np.prod`, `dtype=int` constructs, iteration ..) is `Untranslatable`.
                 `fn_params={"**": "rpow"}`: `x ** y` with a float exponent is the two-argument function parameter `rpow x y`.
                 `const_exprs={"x==np.inf": ("is_pos_inf", "pred:x")}`: the test is `is_pos_inf x` for a function parameter
                 `is_pos_inf : Rat → Bool` (a test on a local / on the parameter of a nested function, which no single Bool
                 parameter of the translated definition can stand for).
  PyLite 6     : (C19) `f(*t)` of a declared opaque callable with `t` of a tuple type (`self.model.mass(*interval_I(a))`): the
                 components in place.  `opts["obj_lists"] = {"self.m.models": "n_models"}`: a list of collaborator objects is the
                 list of its positions `range(0, n_models)` (`n_models` a parameter); a loop / comprehension variable bound to
                 one of its elements (directly, through `zip`, `enumerate`) may only be the receiver of a method declared as
                 `opaque_fns["self.m.models[].mass"] = (name, [Int, ..], ret)` (first argument: the position).  A local bound
                 to a declared callable may be called with the keyword arguments listed in `opts["opaque_kwargs"]`; a tuple of
                 numbers passed where a vector is declared is the list of its components.  `np.diag(v)` of a 1-d float array
                 (list of rows), `m[i, j] = v` on a 2-d float array this function owns, `np.sum` of a 2-d array (all entries).
  nd2 (C07)    : (`opts["nd2"]`, methods `nd2_*`) a 2-d numpy array is the list of its rows (`List (List Rat)`), a 3-d one a list of
                 those: `m.T`, `m.size`, `m.shape[0]`, `m[a:b, c:d]` / `m[a:b, j]` / `m[i, j]`, `np.mean / np.var / np.std(m,
                 axis=0, ddof=k)` (`np.std` = the declared `np.sqrt` of the variance) and the same on 1-d arrays, `np.cov(a, b,
                 bias=.., ddof=..)`, `np.dot`, `@`, `np.amin / np.amax`, `np.absolute`, `m - v` / `m * c` (broadcasting along the
                 last axis), `np.empty_like(m)`, `m[:, k] = v` on an array built by the function.  `try: B except E: H` with
                 `opts["try_raises"] = {"E": name}`: `if name then H else B` for the Bool parameter `name` = "B raises E" (only
                 when H re-assigns everything B assigns that is read afterwards); `logging.f(..)` statements are skipped.
  paths        : (C17, `path_index` / `path_call`) subscripts with several axes of a 1-d / 2-d array: `x[..., i]`, `x[..., a:b]`,
                 `x[i, ...]`, `x[i, j]` (an axis that is not indexed is mapped over); `np.argwhere(xs <op> c)` / `(c <op> xs)` of a
                 1-d array (the positions, increasing; the (n, 1) result is read as the list of its n entries), `np.min / np.max /
                 np.amin / np.amax (xs)`, `np.maximum / np.minimum` of a scalar and a 1-d array, `any / all` of a comprehension
                 of conditions; `break` in a `for` loop without inner loops (one more Boolean state variable "the loop was left":
                 once set, the remaining items leave the state unchanged); argument type "_" of a declared opaque callable: one
                 of the function's own object parameters handed on unchanged (the Lean function parameter is closed over it).
  vectors 2    : (C14; `opts["lists"]`) `map(f, xs)` with `f` of the same unit, `reversed(xs)`, `max(xs)` / `min(xs)` of one list
                 (fold of the 2-argument max from the first element; 0 for an empty list where Python raises), `all / any` of
                 booleans, `next(<generator expression>)` (first element), `xs + (v,)` / `(v,) + xs`, `return (a, ..)` of a
                 function whose declared result is a list, `return f(*xs)` of a declared opaque callable (`err` unless len(xs)
                 is its arity), a walrus as the left operand of an `if` / `while` test (`if (d := e) > 1:` is `d = e; if d > 1:`),
                 `deque.appendleft`; `opts["call_views"]`: one exact call expression as an opaque function of named locals;
                 `opts["value_and_stores"]`: a function with `stores` that returns a value gives (value, final stores); a block
                 view of a function with `stores` needs no `result`.
Anything else raises `Untranslatable` with the source position: the source tie of that function is then *unavailable* (the
behavioural correspondence remains), never silently approximated.

Semantics chosen (each is stated in the generated file's header):
  `//`, `%`   -> Int.fdiv / Int.fmod (floor division, sign of the divisor: Python's)      [Int only]
  `/`         -> Rat division (Python raises ZeroDivisionError where Lean's Rat gives 0: the domain is the caller's)
  `**`        -> `^` with a Nat exponent: literal, or `Int.toNat` of an Int expression (Python returns a float for a negative
                 exponent: outside the subset's domain)
  isqrt       -> Nat.sqrt of `Int.toNat` (Python raises for negative arguments)
  float ops   -> exact rational arithmetic (rounding is not modelled; same convention as the hand-written model)
"""
from __future__ import annotations

import ast
import textwrap
from fractions import Fraction


class Untranslatable(Exception):
    pass


INT, RAT, BOOL, NUM = "Int", "Rat", "Bool", "num"      # NUM: a numeric literal, elaborated by Lean from its context
I64 = "Rpylib.Py.I64Array"    # (C09) the result of np.arange: NOT a `List ..` type for the translator, so that no generic list /
#   arithmetic rule applies to it (numpy's fixed-width integers are not modelled); only float-producing consumers accept it

LEAN_KEYWORDS = {"at", "from", "have", "show", "fun", "end", "open", "in", "let", "do", "then", "else", "if", "match",
                 "with", "by", "where", "local", "instance", "def", "theorem", "max", "min", "abs", "prefix", "infix",
                 "notation", "namespace", "section", "variable", "universe", "export", "import", "mutual", "structure",
                 "class", "inductive", "deriving", "macro", "syntax", "λ", "Type", "Prop", "Sort", "omega", "pi"}


def is_list(t) -> bool:
    return isinstance(t, str) and t.startswith("List ")


def _strip_parens(t: str) -> str:
    t = t.strip()
    while t.startswith("(") and t.endswith(")"):
        depth, ok = 0, True
        for i, ch in enumerate(t):
            depth += ch == "("
            depth -= ch == ")"
            if depth == 0 and i < len(t) - 1:
                ok = False
                break
        if not ok:
            break
        t = t[1:-1].strip()
    return t


def elem_of(t: str) -> str:
    return _strip_parens(t[5:])


def atom(t: str) -> str:
    return t if all(c.isalnum() or c == "_" for c in t) else f"({t})"


def list_of(t: str) -> str:
    return "List " + atom(t)


def split_top(t: str, sep: str) -> list[str]:
    """split a type at the top-level occurrences of `sep` (× or →)"""
    out, depth, cur = [], 0, ""
    for ch in t:
        if ch == "(":
            depth += 1
        elif ch == ")":
            depth -= 1
        if ch == sep and depth == 0:
            out.append(cur.strip())
            cur = ""
        else:
            cur += ch
    out.append(cur.strip())
    return out


class _Yield(ast.stmt):
    """synthetic last statement of a loop body: the value of the body is the tuple of the state variables"""
    _fields = ()

    def __init__(self, names):
        super().__init__()
        self.names = names


def lname(n: str) -> str:
    n = n.lstrip("_") or "u"
    return n + "'" if n in LEAN_KEYWORDS else n


class Fn:
    """one function to translate: where it is, how its parameters are typed"""

    def __init__(self, qualname, params=None, ret=None, self_attrs=None, enum_attrs=None, fuel=None, lean_name=None,
                 err=None, consts=None, fn_params=None, const_calls=None, opaque_fns=None, const_exprs=None, opaque_index=None,
                 stores=None, block=None, result=None, ctor=None, opts=None):
        self.qualname = qualname                  # "Class.method" or "function"
        self.params = params or {}                # python parameter name -> "Int" | "Rat" | "Bool" (overrides annotations)
        self.ret = ret                            # Lean return type, e.g. "Int", "Rat", "Int × Int"
        self.self_attrs = self_attrs or {}        # attribute name -> Lean type; becomes a parameter self_<attr>
        self.enum_attrs = enum_attrs or {}        # attribute name -> enum class name (tests become Bool parameters)
        self.fuel = fuel                          # Lean expression (in the parameters) bounding the recursion depth
        self.lean_name = lean_name or qualname.replace(".", "_").replace("__", "_").replace("#", "_").replace("@", "_").lstrip("_")
        self.err = err                            # Lean term returned where the Python code raises (None: raise is untranslatable)
        self.consts = consts or {}                # module-level / class-level constant names -> (Lean term, type)
        self.fn_params = fn_params or {}          # python callable name (e.g. "np.exp") -> Lean parameter name of type Rat → Rat
        self.const_calls = const_calls or {}      # normalised text of a call expression -> (Lean parameter name, type)
        self.opaque_fns = opaque_fns or {}        # python callable (e.g. "self._theta") -> (Lean parameter name, [arg types], ret type)
        self.const_exprs = const_exprs or {}      # normalised text of any expression (e.g. "a==-np.inf") -> (Lean parameter name, type)
        self.opaque_index = opaque_index or {}    # name of an object parameter -> (Lean function parameter, index type, value type): obj[i]
        self.stores = stores or {}                # mutable attributes: name -> Lean type.  `self.<name>` is a state variable
        #   (parameter self_<name> = its value on entry); a function that ends without a value (or with `return self`) returns the
        #   tuple of their final values in this order ("attribute stores as extra results").  Callers cannot be translated.
        self.block = block                        # (first, last[, occurrence]): translate only the consecutive statements from the
        #   one whose text starts with `first` to the one whose text starts with `last` (a *view* of a sub-block: its free
        #   variables are the declared `params`), followed by `return <result>`
        self.result = result                      # python expression text returned after the sub-block
        self.ctor = ctor                          # [kw, ..]: `super(..).__init__(kw=v, ..)` ends the translation: the constructed
        #   object is read as the tuple of these keyword arguments; `x = cls.__new__(cls)` is skipped
        self.opts = opts or {}                    # PyLite 3 options (while loops, deques, numpy vectors; see `_Tr.while_loop`):
        #   "loop_fuel": Lean Nat expression (in the parameters) = fuel of every `while` loop (fuel exhausted -> `err`);
        #   "local_types": {local name: Lean type} for locals initialised with `deque()` / `[]`; "empty_type": the type of
        #                every other local initialised that way;
        #   "np_arrays": [names] of numpy vectors: `v * s`, `s * v`, `v / s` with a scalar `s` are elementwise (a Python list
        #                would be repeated by `*`: the spec asserts the name is bound to a numpy array);
        #   "counters": ["self.sampling_cost", ..] attributes that are only incremented (`self.c += e`), never read by the
        #                function: the store is dropped (it cannot influence the value returned);
        #   "sorted_state": True -> the state tuple of every loop is ordered by variable name (not by first assignment in the
        #                loop body); "definition" -> by the order in which the variables are first bound in the function
        #                (unchanged by renaming and by reordering statements inside the loop)
        #   "fixed_binders": True -> every declared self_attr / const_call / const_expr / opaque_fn / fn_param is a binder of the
        #                definition even when the current text does not read it (signature independent of which reads a rewrite keeps)
        #   "records": {"Cls": [(kw, type), ..]} -> the constructor call `Cls(kw=v, ..)` (keyword arguments only) is the tuple of
        #                the values of the listed keyword arguments (a collaborator object read as a record of these fields)
        # parameter types: "Int" | "Rat" | "Bool", "obj" (an object only used through the opaque_* / const_* tables: no binder),
        # "fn:<Lean function type>" (a callable parameter, e.g. "fn:Rat → Rat → Rat")


class Unit:
    """translation unit: the functions of one Python file"""

    def __init__(self, path, fns, consts=None):
        self.path = path
        self.fns = {f.qualname: f for f in fns}
        self.consts = consts or {}                # module-level constants translated from the source: name -> Lean type
        self.const_bad: dict[str, str] = {}       # constants that could not be translated: name -> reason


class _Tr(ast.NodeVisitor):
    def __init__(self, unit: Unit, fn: Fn, node: ast.FunctionDef, cls: str | None):
        self.unit, self.fn, self.node, self.cls = unit, fn, node, cls
        self.env: dict[str, str] = {}             # local name -> type
        self.extra_params: list[tuple[str, str]] = []   # (lean name, type) discovered in the body (self attrs, enum tests)
        self.recursive = False
        self.tmp = 0
        self.alias: dict[str, str] = {}           # local name -> dotted object path it stands for (e.g. params -> self.parameters)
        self.none_flag: dict[str, str] = {}       # optional parameter name -> Lean Bool term "it is None here"
        self.iters: set[str] = set()              # locals bound to a one-shot iterator (see `iter_stmt`)
        self.state_types: list[str] | None = None  # inside a loop body: the types of the state variables (for _Yield)
        self.yield_types: list[str] | None = None
        self.ix_stack: list[str] = []             # PyLite 4: index variables of the enclosing loops / comprehensions
        self.ix_used: set[str] = set()            #   those a variate-stream call (`@` argument) refers to
        self.sites: dict = {}                     #   (sampler, id(ast node)) -> number of the call site among that sampler's
        self.obj_elem: dict[str, str] = {}        # PyLite 6 (C19): loop / comprehension variable -> the declared list of objects
        #                                             (`opts["obj_lists"]`) it is an element of; its Lean value is the position

    # ---- helpers -------------------------------------------------------------------------------------------------
    def bad(self, node, why):
        raise Untranslatable(f"{self.unit.path}:{getattr(node, 'lineno', '?')}: {self.fn.qualname}: {why}")

    def add_param(self, name, ty):
        if (name, ty) not in self.extra_params:
            self.extra_params.append((name, ty))

    def fresh(self, base="t"):
        self.tmp += 1
        return f"{base}_{self.tmp}"

    def coerce(self, s, ty, want):
        if ty == want or ty == NUM or want is None:
            return s
        if ty == INT and want == RAT:
            return f"(({s} : Int) : Rat)"
        if ty == BOOL and want in (INT, RAT, NUM):
            return f"(if {s} then 1 else 0)"
        if is_list(ty) and is_list(want) and elem_of(ty) in (INT, NUM) and elem_of(want) == RAT:
            return f"(Rpylib.Py.castList {s})"
        if is_list(ty) and is_list(want) and elem_of(ty) == NUM:
            return f"({s} : {want})"
        return s

    def expr_as(self, e, want):
        """translate `e` where a value of type `want` is expected: a tuple / list literal is a list when a list is wanted"""
        if want and want.startswith("fn:"):
            want = want[3:]
        if want and is_list(want) and isinstance(e, (ast.Tuple, ast.List)):
            et = elem_of(want)
            parts = [self.expr_as(x, et) for x in e.elts]
            return "[" + ", ".join(parts) + "]"
        s, t = self.expr(e)
        if t and t.startswith("fn:"):
            return s
        if t == NUM and want:
            return f"({s} : {want})"
        if want and is_list(want) and t and not is_list(t) and "×" in t:
            # PyLite 6 (C19): a tuple of numbers (`x = a[i], a[j]`) where a vector is expected: the list of its components
            comps = [_strip_parens(c) for c in split_top(_strip_parens(t), "×")]
            if all(c in (INT, RAT) for c in comps) and elem_of(want) in (INT, RAT) and not (elem_of(want) == INT and RAT in comps):
                return "[" + ", ".join(self.coerce(self.proj(s, i, len(comps)), c, elem_of(want)) for i, c in enumerate(comps)) + "]"
            self.bad(e, f"a value of type {t} where a {want} is expected")
        return self.coerce(s, t, want)

    # ---- iterables: return (lean list term, element type) ----------------------------------------------------------
    def iterable(self, e) -> tuple[str, str]:
        if isinstance(e, ast.Call):
            fd = _dotted(e.func)
            if fd == "range" and 1 <= len(e.args) <= 2 and not e.keywords:
                if len(e.args) == 1:
                    lo, hi = "0", self.expr_as(e.args[0], INT)
                else:
                    lo, hi = self.expr_as(e.args[0], INT), self.expr_as(e.args[1], INT)
                return f"(Rpylib.Py.range {lo} {hi})", INT
            if fd == "zip" and len(e.args) >= 2 and not e.keywords:
                parts = [self.iterable(a) for a in e.args]
                term, ty = parts[-1]
                for s_, t_ in reversed(parts[:-1]):
                    term, ty = f"(List.zip {s_} {term})", f"{atom(t_)} × {ty}"
                return term, ty
            if fd == "enumerate" and len(e.args) == 1 and not e.keywords:
                s_, t_ = self.iterable(e.args[0])
                return f"(Rpylib.Py.enumerate {s_})", f"Int × {atom(t_) if '×' in t_ else t_}"
            if fd == "reversed" and len(e.args) == 1 and not e.keywords:            # (C14)
                s_, t_ = self.iterable(e.args[0])
                return f"(List.reverse {s_})", t_
            if fd == "map" and len(e.args) == 2 and not e.keywords and isinstance(e.args[0], ast.Name) \
                    and e.args[0].id not in self.env:
                # (C14) `map(f, xs)` with `f` a function of the same unit / a declared callable: `List.map` of the call `f(item)`
                s_, t_ = self.iterable(e.args[1])
                tmp = self.fresh("it")
                saved = dict(self.env)
                self.env[tmp] = t_
                item = ast.copy_location(ast.Name(id=tmp, ctx=ast.Load()), e)
                try:
                    body, bt = self.expr(ast.copy_location(ast.Call(func=e.args[0], args=[item], keywords=[]), e))
                finally:
                    self.env = saved
                if bt == NUM:
                    body, bt = f"({body} : Int)", INT
                return f"(List.map (fun ({tmp} : {t_}) => {body}) {s_})", bt
            if fd in ("product", "itertools.product") and len(e.args) == 1 and len(e.keywords) == 1 \
                    and e.keywords[0].arg == "repeat":
                s_, t_ = self.iterable(e.args[0])
                n = self.expr_as(e.keywords[0].value, INT)
                return f"(Rpylib.Py.product {s_} (Int.toNat {n}))", list_of(t_)
            if fd in ("product", "itertools.product", "zip") and len(e.args) == 1 and isinstance(e.args[0], ast.Starred) \
                    and not e.keywords:
                # `product(*xss)` / `zip(*xss)` of a list of lists: every result is a list of elements of the inner lists
                s_, t_ = self.expr(e.args[0].value)
                if not (is_list(t_) and is_list(elem_of(t_))):
                    self.bad(e, f"{fd}(*x) of a value of type {t_}")
                return f"(Rpylib.Py.{'transpose' if fd == 'zip' else 'cartesian'} {s_})", elem_of(t_)
        if isinstance(e, (ast.List, ast.Tuple)):
            parts = [self.expr(x) for x in e.elts]
            tys = {t for _, t in parts}
            if len(tys) == 1 and is_list(next(iter(tys))):        # a literal list of lists of one type
                return "[" + ", ".join(s_ for s_, _ in parts) + "]", next(iter(tys))
            et = RAT if RAT in tys else INT
            if not tys <= {INT, RAT, NUM}:
                self.bad(e, "literal list of non-numbers")
            return "[" + ", ".join(self.coerce(s_, t_, et) if t_ != NUM else f"({s_} : {et})" for s_, t_ in parts) + "]", et
        ol = self.obj_list_of(e)
        if ol is not None:
            # PyLite 6 (C19): a declared list of collaborator objects is the list of its positions 0 .. n-1 (`n` a parameter);
            # an element is only usable as the receiver of a declared method call (see `mark_obj_targets`, `pylite6_call`)
            self.add_param(self.fn.opts["obj_lists"][ol], INT)
            return f"(Rpylib.Py.range 0 {self.fn.opts['obj_lists'][ol]})", INT
        s_, t_ = self.expr(e)
        if is_list(t_):
            return s_, elem_of(t_)
        self.bad(e, f"iteration over a value of type {t_}")

    def obj_list_of(self, e):
        """the key of `opts["obj_lists"]` the attribute chain `e` denotes (through an object alias), else None"""
        ol = self.fn.opts.get("obj_lists") if self.fn.opts else None
        if not ol or not isinstance(e, ast.Attribute):
            return None
        dv = _dotted(e)
        if dv and dv.split(".")[0] in self.alias:
            dv = self.alias[dv.split(".")[0]] + dv[len(dv.split(".")[0]):]
        return dv if dv in ol else None

    def mark_obj_targets(self, tgt, it):
        """PyLite 6 (C19): remember which names of the loop / comprehension target `tgt` are bound to elements of a declared list
        of objects by the iterable `it` (the list itself, `zip(.., objs, ..)`, `enumerate(objs)`); any other way of reaching
        the elements of such a list is untranslatable (an element is a position in Lean: it must not be used as a number)"""
        if not (self.fn.opts and self.fn.opts.get("obj_lists")):
            return
        if isinstance(tgt, ast.Name) and self.obj_list_of(it) is not None:
            self.obj_elem[tgt.id] = self.obj_list_of(it)
            return
        if isinstance(tgt, (ast.Tuple, ast.List)) and isinstance(it, ast.Call) and not it.keywords:
            fd = _dotted(it.func)
            if fd == "zip" and len(it.args) == len(tgt.elts):
                for x, a_ in zip(tgt.elts, it.args):
                    self.mark_obj_targets(x, a_)
                return
            if fd == "enumerate" and len(it.args) == 1 and len(tgt.elts) == 2:
                self.mark_obj_targets(tgt.elts[1], it.args[0])
                return
        for n in ast.walk(it):
            if self.obj_list_of(n) is not None:
                self.bad(it, "the elements of a list of objects are bound in a form the translator cannot follow")
        for n in ast.walk(tgt):
            if isinstance(n, ast.Name):
                self.obj_elem.pop(n.id, None)        # the name is rebound to something that is not an object

    def bind_target(self, tgt, ty, tmp) -> list[str]:
        """let-lines binding the names of a loop / comprehension target to the components of `tmp : ty` (updates env)"""
        if isinstance(tgt, ast.Name):
            self.env[tgt.id] = ty
            return [f"let {lname(tgt.id)} : {ty} := {tmp}"]
        if isinstance(tgt, (ast.Tuple, ast.List)):
            tys = split_top(_strip_parens(ty), "×")
            n = len(tgt.elts)
            if len(tys) < n:
                self.bad(tgt, f"cannot unpack a {ty} into {n} names")
            if len(tys) > n:                      # right-nested product: the last name takes the rest
                tys = tys[:n - 1] + [" × ".join(tys[n - 1:])]
            lines = []
            for i, (x, t_) in enumerate(zip(tgt.elts, tys)):
                lines += self.bind_target(x, _strip_parens(t_), self.proj(tmp, i, n))
            return lines
        self.bad(tgt, "loop target")

    def comprehension(self, e):
        if len(e.generators) != 1 or e.generators[0].is_async:
            self.bad(e, "comprehension with several generators")
        g = e.generators[0]
        it, et = self.iterable(g.iter)
        saved = dict(self.env)
        tmp = self.fresh("it")
        lines = self.bind_target(g.target, et, tmp)
        saved_obj = dict(self.obj_elem)
        self.mark_obj_targets(g.target, g.iter)
        ix = self.fresh("ix")
        self.ix_stack.append(ix)
        try:
            conds = [self.prop(c) for c in g.ifs]
            if ix in self.ix_used:
                self.bad(e, "a variate-stream call in the filter of a comprehension")
            body, bt = self.expr(e.elt)
        finally:
            self.ix_stack.pop()
            self.obj_elem = saved_obj
        if bt == NUM:
            body, bt = f"({body} : Int)", INT
        self.env = saved
        binds = "; ".join(lines)
        if conds:
            it = f"(List.filter (fun ({tmp} : {et}) => {binds}; decide ({' ∧ '.join(conds)})) {it})"
        if ix in self.ix_used:                     # PyLite 4: the element calls a variate stream: it needs its position
            return (f"(List.map (fun ({tmp}_p : Int × {atom(et)}) => let {ix} : Int := {tmp}_p.1; let {tmp} : {et} := {tmp}_p.2; "
                    f"{binds}; {body}) (Rpylib.Py.enumerate {it}))"), list_of(bt)
        return f"(List.map (fun ({tmp} : {et}) => {binds}; {body}) {it})", list_of(bt)

    def join_num(self, node, a, ta, b, tb):
        """common numeric type of two operands, with the coerced operand strings"""
        if ta == BOOL:
            a, ta = f"(if {a} then 1 else 0)", NUM
        if tb == BOOL:
            b, tb = f"(if {b} then 1 else 0)", NUM
        if ta == tb:
            return a, b, ta
        if ta == NUM:
            return a, b, tb
        if tb == NUM:
            return a, b, ta
        if {ta, tb} == {INT, RAT}:
            return self.coerce(a, ta, RAT), self.coerce(b, tb, RAT), RAT
        self.bad(node, f"operands of types {ta} and {tb}")

    # ---- expressions: return (lean string, type) -----------------------------------------------------------------
    def expr(self, e) -> tuple[str, str]:
        if self.fn.const_exprs:
            key = _norm_expr(e)
            if key in self.fn.const_exprs:
                nm, ty = self.fn.const_exprs[key]
                if ty.startswith("pred:"):                # (C09) a test on a local: the function parameter `nm : Rat → Bool`
                    return self.pred_param(e, nm, ty), BOOL
                self.add_param(nm, ty)
                return nm, ty
        if self.fn.opts.get("nd2"):                        # (C07) 2-d numpy arrays: see `nd2_expr`
            rn = self.nd2_expr(e)
            if rn is not None:
                return rn
        if self.fn.opts:
            r3 = self.pylite3_expr(e)
            if r3 is not None:
                return r3
        if isinstance(e, ast.Constant):
            v = e.value
            if isinstance(v, bool):
                return ("true" if v else "false"), BOOL
            if isinstance(v, int):
                return (str(v) if v >= 0 else f"({v})"), NUM
            if isinstance(v, float):
                fr = Fraction(v)
                if fr.denominator == 1:
                    return f"({fr.numerator} : Rat)", RAT
                return f"(({fr.numerator} : Rat) / {fr.denominator})", RAT
            self.bad(e, f"constant {v!r}")
        if isinstance(e, ast.Name):
            if e.id in self.iters and not getattr(self, "iter_ok", False):
                self.bad(e, f"the one-shot iterator `{e.id}` is used other than by next() / one for statement")
            if e.id in self.obj_elem:                  # PyLite 6 (C19): an element of a list of objects is not a value
                self.bad(e, f"the object `{e.id}` (an element of {self.obj_elem[e.id]}) is used other than as the receiver of a declared method")
            if e.id in self.env:
                return lname(e.id), self.env[e.id]
            if e.id in self.fn.consts:
                return self.fn.consts[e.id]
            if e.id in getattr(self.unit, "consts", {}):          # a module-level constant translated from the source
                if e.id in self.unit.const_bad:
                    self.bad(e, f"module constant {e.id}: {self.unit.const_bad[e.id]}")
                return lname(e.id), self.unit.consts[e.id]
            self.bad(e, f"free name {e.id}")
        if isinstance(e, ast.Attribute):
            if e.attr == "size" and isinstance(e.value, ast.Name) and is_list(self.env.get(e.value.id, "")):
                return f"((List.length {lname(e.value.id)} : Nat) : Int)", INT      # ndarray.size of a 1-d array
            dotted = _dotted(e)
            if dotted and dotted.split(".")[0] in self.alias:
                root, _, rest = dotted.partition(".")
                dotted = self.alias[root] + "." + rest
            if dotted and dotted in self.fn.consts:
                return self.fn.consts[dotted]
            if dotted and dotted in self.fn.opaque_fns:         # a bare reference to a declared callable: a function value
                nm, atys, rty = self.fn.opaque_fns[dotted]
                self.add_param(nm, _stream_ty(" → ".join(list(atys) + [rty])))
                return nm, "fn:" + " → ".join(list(atys) + [rty])
            if dotted and dotted.startswith("self.") and dotted[5:] in self.fn.self_attrs and "." in dotted[5:]:
                ty = self.fn.self_attrs[dotted[5:]]
                nm = "self_" + dotted[5:].replace("._", "_").replace(".", "_").lstrip("_")
                self.add_param(nm, ty)
                return nm, ty
            if isinstance(e.value, ast.Name) and e.value.id == "self":
                if e.attr in self.fn.self_attrs:
                    ty = self.fn.self_attrs[e.attr]
                    nm = "self_" + e.attr.lstrip("_")
                    self.add_param(nm, ty)
                    return nm, ty
                self.bad(e, f"self.{e.attr} is not declared in the spec")
            if isinstance(e.value, ast.Name) and e.value.id in ("np", "numpy", "math") and e.attr == "inf":
                self.bad(e, "infinity")
            if e.attr == "size" and isinstance(e.value, ast.Name) and self.env.get(e.value.id) in (INT, RAT):
                return "1", NUM                        # PyLite 4: `.size` of a numpy scalar (an element of a 1-d array)
            self.bad(e, "attribute access")
        if isinstance(e, ast.UnaryOp):
            s, t = self.expr(e.operand)
            if isinstance(e.op, ast.USub):
                if t == BOOL:
                    self.bad(e, "minus of a bool")
                if is_list(t):
                    self.bad(e, "minus of a list")
                return f"(-{s})", t
            if isinstance(e.op, ast.Not):
                return f"(!{self.as_bool(e.operand)})", BOOL
            if isinstance(e.op, ast.UAdd):
                return s, t
            self.bad(e, "unary operator")
        if isinstance(e, ast.BinOp):
            if isinstance(e.op, ast.Mult) and isinstance(e.left, ast.List) and e.left.elts:
                # `[x, ..] * n`: n copies of the literal list, concatenated (n <= 0 gives the empty list: Int.toNat)
                parts = [self.expr(x) for x in e.left.elts]
                tys = {t for _, t in parts if t != NUM}
                if len(tys) == 1 and (is_list(next(iter(tys))) or next(iter(tys)) in (INT, RAT)):
                    et = next(iter(tys))
                    n = self.expr_as(e.right, INT)
                    elts = [s_ if t_ != NUM else f"({s_} : {et})" for s_, t_ in parts]
                    if len(elts) == 1:
                        return f"(List.replicate (Int.toNat {n}) {elts[0]})", list_of(et)
                    return f"(List.flatten (List.replicate (Int.toNat {n}) [{', '.join(elts)}]))", list_of(et)
            if isinstance(e.op, ast.Add) and self.fn.opts.get("lists") \
                    and isinstance(e.left, ast.Tuple) != isinstance(e.right, ast.Tuple):
                # (C14) `xs + (v, ..)` / `(v, ..) + xs`: a tuple used as a vector concatenated with a tuple literal
                lit, other = (e.left, e.right) if isinstance(e.left, ast.Tuple) else (e.right, e.left)
                os_, ot = self.expr(other)
                if is_list(ot):
                    ls_ = self.expr_as(lit, ot)
                    return (f"({ls_} ++ {os_})" if lit is e.left else f"({os_} ++ {ls_})"), ot
            a, ta = self.expr(e.left)
            b, tb = self.expr(e.right)
            op = e.op
            rn = self.nd2_binop(e, a, ta, b, tb) if self.fn.opts.get("nd2") else None
            if rn is not None:
                return rn
            r3 = self.pylite3_binop(e, a, ta, b, tb)
            if r3 is not None:
                return r3
            r4 = self.pylite4_binop(e, a, ta, b, tb)
            if r4 is not None:
                return r4
            if isinstance(op, ast.Pow):
                if isinstance(e.right, ast.Constant) and isinstance(e.right.value, int) and e.right.value >= 0:
                    return f"({a} ^ ({e.right.value} : Nat))", (INT if ta == NUM else ta)
                if tb in (INT,) and ta in (INT, NUM):
                    base = a if ta == INT else f"({a} : Int)"
                    return f"({base} ^ (Int.toNat {b}))", INT
                if tb == INT and ta == RAT:                # (C09) float ** int expression
                    return f"({a} ^ (Int.toNat {b}))", RAT
                if tb == I64 and ta == RAT:                # (C09) float ** np.arange(..): a float array
                    return f"(List.map (fun (k_ : Int) => {a} ^ (Int.toNat k_)) {b})", "List Rat"
                if "**" in self.fn.fn_params and tb == RAT and ta in (RAT, INT, NUM):
                    nm = self.fn.fn_params["**"]           # (C09) x ** y, y real: the function parameter `rpow x y`
                    self.add_param(nm, "Rat → Rat → Rat")
                    return f"({nm} {self.coerce(a, ta, RAT) if ta != NUM else '(' + a + ' : Rat)'} {b})", RAT
                if isinstance(e.left, ast.Constant) and type(e.left.value) is int and f"{e.left.value}**" in self.fn.fn_params \
                        and tb in (RAT, INT, NUM):
                    nm = self.fn.fn_params[f"{e.left.value}**"]        # `2 ** x`, x real: the function parameter `pow2 x`
                    self.add_param(nm, "Rat → Rat")
                    return f"({nm} {self.coerce(b, tb, RAT) if tb != NUM else '(' + b + ' : Rat)'})", RAT
                self.bad(e, "power with a non-integer exponent")
            if isinstance(op, ast.FloorDiv) or isinstance(op, ast.Mod):
                if RAT in (ta, tb):
                    self.bad(e, "floor division / modulo of floats")
                a2 = a if ta != NUM else f"({a} : Int)"
                f = "Int.fdiv" if isinstance(op, ast.FloorDiv) else "Int.fmod"
                return f"({f} {a2} {b})", INT
            if isinstance(op, ast.Div):
                a2 = self.coerce(a, ta, RAT) if ta != NUM else f"({a} : Rat)"
                b2 = self.coerce(b, tb, RAT) if tb != NUM else f"({b} : Rat)"
                return f"({a2} / {b2})", RAT
            sym = {ast.Add: "+", ast.Sub: "-", ast.Mult: "*"}.get(type(op))
            if sym is None:
                self.bad(e, f"operator {type(op).__name__}")
            a, b, t = self.join_num(e, a, ta, b, tb)
            return f"({a} {sym} {b})", t
        if isinstance(e, ast.Compare) or isinstance(e, ast.BoolOp):
            return f"(decide {self.prop(e)})", BOOL
        if isinstance(e, ast.IfExp):
            c = self.prop(e.test)
            a, ta = self.expr(e.body)
            b, tb = self.expr(e.orelse)
            if ta == BOOL and tb == BOOL:
                return f"(if {c} then {a} else {b})", BOOL
            a, b, t = self.join_num(e, a, ta, b, tb)
            if t == NUM:
                t = INT
                a = f"({a} : Int)"
            return f"(if {c} then {a} else {b})", t
        if isinstance(e, (ast.ListComp, ast.GeneratorExp)):
            return self.comprehension(e)
        if isinstance(e, ast.List):
            s_, et = self.iterable(e)
            return s_, list_of(et)
        if isinstance(e, ast.Tuple):
            parts = [self.expr(x) for x in e.elts]
            parts = [(f"({s} : Int)" if t == NUM else s, INT if t == NUM else t) for s, t in parts]
            return "(" + ", ".join(s for s, _ in parts) + ")", " × ".join(atom(t) for _, t in parts)
        if isinstance(e, ast.Subscript):
            if isinstance(e.value, ast.Name) and e.value.id in self.fn.opaque_index:
                nm, ity, vty = self.fn.opaque_index[e.value.id]
                self.add_param(nm, f"{ity} → {vty}")
                si, ti = self.expr(e.slice)
                return f"({nm} {self.coerce(si, ti, ity) if ti != NUM else '(' + si + ' : ' + ity + ')'})", vty
            if isinstance(e.value, ast.Name) and e.value.id in self.env and "×" in self.env[e.value.id] \
                    and isinstance(e.slice, ast.Constant) and isinstance(e.slice.value, int):
                tys = [_strip_parens(t) for t in split_top(self.env[e.value.id], "×")]
                i = e.slice.value
                if i < 0:
                    i += len(tys)
                if not 0 <= i < len(tys):
                    self.bad(e, "tuple index out of range")
                return self.proj(lname(e.value.id), i, len(tys)), tys[i]
            if isinstance(e.value, ast.Attribute) and e.value.attr == "shape" and isinstance(e.slice, ast.Constant) \
                    and e.slice.value == 0 and isinstance(e.value.value, ast.Name) and is_list(self.env.get(e.value.value.id, "")):
                return f"((List.length {lname(e.value.value.id)} : Nat) : Int)", INT      # PyLite 4: ndarray.shape[0]
            if isinstance(e.slice, ast.Tuple):
                return self.path_index(e)                # (C17) x[..., i], x[..., a:b], x[i, ...], x[i, j]
            rfi = self.path_fancy(e)                     # (C17) xs[js] with a list of positions
            if rfi is not None:
                return rfi
            vs, vt = self.expr(e.value)
            if is_list(vt):
                if isinstance(e.slice, ast.Slice):
                    if e.slice.step is not None and e.slice.lower is None and e.slice.upper is None \
                            and _norm_expr(e.slice.step) == "-1":
                        return f"(List.reverse {vs})", vt                  # xs[::-1]
                    if e.slice.step is not None:
                        self.bad(e, "slice with a step")
                    out = vs
                    if e.slice.upper is not None:
                        out = f"(Rpylib.Py.sliceTo {out} {self.expr_as(e.slice.upper, INT)})"
                        if e.slice.lower is not None:
                            self.bad(e, "slice with both bounds")
                    if e.slice.lower is not None:
                        out = f"(Rpylib.Py.sliceFrom {out} {self.expr_as(e.slice.lower, INT)})"
                    return out, vt
                return f"(Rpylib.Py.idx {vs} {self.expr_as(e.slice, INT)})", elem_of(vt)
            self.bad(e, "subscript")
        if isinstance(e, ast.Call):
            return self.call(e)
        self.bad(e, f"expression {type(e).__name__}")

    @staticmethod
    def proj(s, i, n):
        # right-nested products: (a, b, c) = (a, (b, c))
        out = s
        for _ in range(i):
            out = f"{out}.2"
        return f"{out}.1" if i < n - 1 else out

    def call(self, e: ast.Call):
        key = _norm_call(e)
        if key in self.fn.const_calls:
            nm, ty = self.fn.const_calls[key]
            self.add_param(nm, ty)
            return nm, ty
        e = self.path_super(e)                    # (C17) super().m(..) -> Base.m(..) when Base.m is a function of this unit
        if key in self.fn.opts.get("call_views", {}):
            # (C14) `opts["call_views"] = {normalised call text: (parameter, [local names], result type)}`: this exact call is the
            # opaque function `parameter` of the current values of the named locals (everything else it reads is a fixed collaborator)
            nm, names_, rty = self.fn.opts["call_views"][key]
            if any(n_ not in self.env for n_ in names_):
                self.bad(e, f"call view {key}: the locals {names_} are not all bound here")
            self.add_param(nm, " → ".join([atom(self.env[n_]) for n_ in names_] + [rty]))
            return "(" + " ".join([nm] + [lname(n_) for n_ in names_]) + ")", rty
        f = e.func
        fdot = _dotted(f)
        if fdot and fdot.split(".")[0] in self.alias:
            fdot = self.alias[fdot.split(".")[0]] + fdot[len(fdot.split(".")[0]):]
        if fdot and fdot in self.fn.opts.get("records", {}):
            # (C10) a constructor call of a collaborator class, every argument by keyword, read as the record of the keyword
            # arguments the spec lists (the others are objects): the tuple of their values in the listed order
            fields = self.fn.opts["records"][fdot]
            given = {k_.arg: k_.value for k_ in e.keywords}
            if e.args or None in given or any(k_ not in given for k_, _ in fields):
                self.bad(e, f"record constructor {fdot}: expected the keyword arguments {[k_ for k_, _ in fields]}")
            parts = [self.expr_as(given[k_], t_) for k_, t_ in fields]
            return ("(" + ", ".join(parts) + ")" if len(parts) > 1 else parts[0]), " × ".join(atom(t_) for _, t_ in fields)
        lst = self.list_call(e, fdot)
        if lst is not None:
            return lst
        r4 = self.pylite4_call(e, fdot)
        if r4 is not None:
            return r4
        ndc = self.nd_call(e, fdot)
        if ndc is not None:
            return ndc
        r6 = self.pylite6_call(e, fdot)
        if r6 is not None:
            return r6
        kwnames = self.fn.opts.get("opaque_kwargs", {}).get(fdot) if fdot in self.fn.opaque_fns else None
        if kwnames is None and e.keywords and isinstance(f, ast.Name) and self.env.get(f.id, "").startswith("fn:") \
                and self.fn.opts.get("opaque_kwargs"):
            # PyLite 6 (C19): a local bound to a declared callable (`g = self.obj.method`) called with keyword arguments
            kwnames = self.fn.opts["opaque_kwargs"].get(self.stream_of_local(f.id))
        if kwnames and e.keywords:
            # keyword arguments of a declared opaque callable whose parameter names the spec gives: put them in position
            given = dict(zip(kwnames, e.args))
            for kw_ in e.keywords:
                if kw_.arg is None or kw_.arg not in kwnames or kw_.arg in given:
                    self.bad(e, f"keyword argument {kw_.arg} of {fdot}")
                given[kw_.arg] = kw_.value
            if len(e.args) > len(kwnames) or any(n_ not in given for n_ in kwnames):
                self.bad(e, f"call of {fdot}: arguments {sorted(given)} for parameters {kwnames}")
            e = ast.copy_location(ast.Call(func=e.func, args=[given[n_] for n_ in kwnames], keywords=[]), e)
        if e.keywords and not self.unit_callee(e, fdot):
            self.bad(e, "keyword arguments")
        if fdot in self.fn.fn_params and len(e.args) == 1:
            nm = self.fn.fn_params[fdot]
            self.add_param(nm, "Rat → Rat")
            s, t = self.expr(e.args[0])
            if is_list(t) and elem_of(t) in (INT, RAT):          # PyLite 4: a numpy ufunc on a 1-d array
                return f"(List.map {nm} {self.coerce(s, t, 'List Rat')})", "List Rat"
            return f"({nm} {self.coerce(s, t, RAT) if t != NUM else '(' + s + ' : Rat)'})", RAT
        if isinstance(f, ast.Name) and self.env.get(f.id, "").startswith("fn:"):
            tys = split_top(self.env[f.id][3:], "→")
            atys, rty = tys[:-1], tys[-1]
            if len(e.args) != len(atys):
                self.bad(e, f"call of {f.id} with {len(e.args)} arguments")
            parts = [self.expr_as(a, want) for a, want in zip(e.args, atys)]
            return "(" + " ".join([lname(f.id)] + parts) + ")", rty
        if fdot in self.fn.opaque_fns:
            nm, atys, rty = self.fn.opaque_fns[fdot]
            if len(e.args) != len(atys):
                self.bad(e, f"call of {fdot} with {len(e.args)} arguments")
            for a, want in zip(e.args, atys):
                # (C17) argument type "_": one of this function's own object parameters (type "obj") handed on unchanged — the
                # Lean function parameter is closed over it (it is the same object in every call made by one evaluation)
                if want == "_" and not (isinstance(a, ast.Name) and self.env.get(a.id) == "obj"
                                        and any(p.arg == a.id for p in self.node.args.args)):
                    self.bad(e, f"call of {fdot}: the argument declared `_` is not an object parameter handed on unchanged")
            self.add_param(nm, " → ".join([t_ for t_ in atys if t_ != "_"] + [rty]))
            parts = [self.expr_as(a, want) for a, want in zip(e.args, atys) if want != "_"]
            return "(" + " ".join([nm] + parts) + ")", rty
        if fdot in ("scipy.special.factorial", "special.factorial", "sp.special.factorial", "spp.factorial") and len(e.args) == 1 \
                and not e.keywords:
            s, t = self.expr(e.args[0])                                # (C09) a float (exact=False); of an np.arange: a float array
            if t in (INT, NUM):
                return f"((Rpylib.Py.factorial {s if t == INT else '(' + s + ' : Int)'} : Int) : Rat)", RAT
            if t == I64:
                return f"(List.map (fun (k_ : Int) => ((Rpylib.Py.factorial k_ : Int) : Rat)) {s})", "List Rat"
            self.bad(e, f"scipy.special.factorial of a {t}")
        name = None
        if isinstance(f, ast.Name):
            name = f.id
        elif isinstance(f, ast.Attribute) and isinstance(f.value, ast.Name):
            if f.value.id in ("np", "numpy", "math"):
                name = f.value.id + "." + f.attr
            elif f.value.id == "self":
                name = (self.cls + "." if self.cls else "") + f.attr
            else:
                name = f.value.id + "." + f.attr
        if name is None:
            self.bad(e, "call of a computed function")
        if self.unit_callee(e, fdot):
            args = []
        else:
            args = [self.expr(a) for a in e.args]
        if name in ("factorial", "math.factorial") and len(args) == 1 and not e.keywords and args[0][1] in (INT, NUM):
            s, t = args[0]                                # (C09) Python ints are unbounded: exact
            return f"(Rpylib.Py.factorial {s if t == INT else '(' + s + ' : Int)'})", INT
        if name in ("np.arange", "numpy.arange") and 1 <= len(args) <= 2 and not e.keywords:
            # (C09) an int64 array: its own type, accepted only by consumers that produce floats (fixed-width integer
            # arithmetic is not modelled)
            if any(t not in (INT, NUM) for _, t in args):
                self.bad(e, "np.arange of a float")
            if len(args) == 2 and not (isinstance(e.args[0], ast.Constant) and type(e.args[0].value) is int and e.args[0].value >= 0):
                self.bad(e, "np.arange(start, stop) with a start that is not a literal >= 0")
            lo = args[0][0] if len(args) == 2 else "0"
            hi = args[-1][0] if args[-1][1] == INT else f"({args[-1][0]} : Int)"
            return f"(Rpylib.Py.range {lo} {hi})", I64
        if name in ("np.power", "numpy.power") and len(args) == 2 and not e.keywords and args[0][1] == RAT:
            (a_, _), (b_, tb_) = args
            if tb_ == I64:
                return f"(List.map (fun (k_ : Int) => {a_} ^ (Int.toNat k_)) {b_})", "List Rat"
            if tb_ in (INT, NUM):
                return f"({a_} ^ (Int.toNat {b_ if tb_ == INT else '(' + b_ + ' : Int)'}))", RAT
        if name in ("isqrt", "math.isqrt") and len(args) == 1:
            s, t = args[0]
            if t == RAT:
                self.bad(e, "isqrt of a float")
            return f"(Rpylib.Py.isqrt {s})", INT
        if name in ("abs", "np.abs", "numpy.abs", "math.fabs") and len(args) == 1:
            s, t = args[0]
            if t == RAT:
                return f"(Rpylib.Py.rabs {s})", RAT
            return f"(Rpylib.Py.iabs {s})", INT
        if name in ("max", "min", "np.maximum", "np.minimum", "numpy.maximum", "numpy.minimum") and len(args) == 2:
            a, b, t = self.join_num(e, args[0][0], args[0][1], args[1][0], args[1][1])
            if t == NUM:
                t, a = INT, f"({a} : Int)"
            which = "max" if "max" in name else "min"
            fn = {(RAT, "max"): "Rpylib.Py.rmax", (RAT, "min"): "Rpylib.Py.rmin",
                  (INT, "max"): "Rpylib.Py.imax", (INT, "min"): "Rpylib.Py.imin"}.get((t, which))
            if fn is None:
                self.bad(e, f"{which} of {t}")
            return f"({fn} {a} {b})", t
        if name == "pow" and len(args) == 2 and isinstance(e.args[1], ast.Constant) and isinstance(e.args[1].value, int) \
                and e.args[1].value >= 0:
            s, t = args[0]
            return f"({s} ^ ({e.args[1].value} : Nat))", (INT if t == NUM else t)
        if name == "int" and len(args) == 1 and args[0][1] in (INT, NUM):
            return args[0][0], INT
        if name == "int" and len(args) == 1 and args[0][1] == RAT:          # PyLite 3: truncation toward zero
            return f"(Rpylib.Py.truncInt {args[0][0]})", INT
        if name == "float" and len(args) == 1:
            s, t = args[0]
            return (self.coerce(s, t, RAT) if t != NUM else f"({s} : Rat)"), RAT
        if name == "divmod" and len(args) == 2:
            (a, ta), (b, tb) = args
            if RAT in (ta, tb):
                self.bad(e, "divmod of floats")
            a2 = a if ta != NUM else f"({a} : Int)"
            return f"(Int.fdiv {a2} {b}, Int.fmod {a2} {b})", "Int × Int"
        # a function of the same translation unit
        for cand in (name, (self.cls + "." + name) if self.cls and "." not in name else None):
            if cand and cand in self.unit.fns:
                callee = self.unit.fns[cand]
                if callee.stores:
                    self.bad(e, f"call of {cand}, which stores attributes")
                sig = _signature(self.unit, callee)
                given = dict(zip([n for n, _ in sig["py_params"]], e.args))
                if len(e.args) > len(sig["py_params"]):
                    self.bad(e, f"call of {cand} with {len(e.args)} arguments")
                for kw in e.keywords:
                    if kw.arg is None or kw.arg in given or kw.arg not in dict(sig["py_params"]):
                        self.bad(e, f"keyword argument {kw.arg} of {cand}")
                    given[kw.arg] = kw.value
                parts = []
                for pn, want in sig["py_params"]:
                    node_ = given.get(pn, sig["defaults"].get(pn))
                    if node_ is None:
                        self.bad(e, f"call of {cand}: no value for parameter {pn}")
                    if want.startswith("opt:"):
                        inner = want[4:]
                        if isinstance(node_, ast.Constant) and node_.value is None:
                            parts += [f"(default : {inner})", "true"]
                        elif isinstance(node_, ast.Name) and node_.id in self.none_flag:
                            parts += [self.expr_as(node_, inner), self.none_flag[node_.id]]
                        else:
                            parts += [self.expr_as(node_, inner), "false"]
                    elif want == "obj":
                        continue
                    else:
                        parts.append(self.expr_as(node_, want))
                # the callee's self-attribute / enum parameters are passed through (must be declared for the caller too)
                for nm, ty in sig["extra"]:
                    self.add_param(nm, ty)
                    parts.append(nm)
                if cand == self.fn.qualname:
                    self.recursive = True
                    # the extra parameters of the function being translated are only known at the end: placeholder, filled
                    # in by `_signature`.  A flag that describes one python parameter (e.g. `a==-np.inf`) is passed on only
                    # when that parameter is passed on unchanged; a different (Rat-valued, hence finite) argument makes it false.
                    over = {}
                    for key, (nm, ty) in self.fn.const_exprs.items():
                        for pn, arg in [(pn_, given[pn_]) for pn_, _ in sig["py_params"] if pn_ in given]:   # keywords too
                            if __import__("re").search(r"\b" + pn + r"\b", key) and not (isinstance(arg, ast.Name) and arg.id == pn) \
                                    and ty == BOOL:             # the parameter as a whole word of the test's text
                                over[nm] = "false"
                    tag = "⟪EXTRA" + "".join(f"|{k}={v}" for k, v in sorted(over.items())) + "⟫"
                    return "(" + " ".join([callee.lean_name + "_fuel", "fuel"] + parts + [tag]) + ")", sig["ret"]
                head = callee.lean_name
                return "(" + " ".join([head] + parts) + ")", sig["ret"]
        self.bad(e, f"call of {name}")

    def unit_callee(self, e, fdot) -> bool:
        f = e.func
        name = None
        if isinstance(f, ast.Name):
            name = f.id
        elif isinstance(f, ast.Attribute) and isinstance(f.value, ast.Name):
            name = ((self.cls + ".") if (f.value.id == "self" and self.cls) else (f.value.id + ".")) + f.attr
        return bool(name) and (name in self.unit.fns or (self.cls and "." not in name and self.cls + "." + name in self.unit.fns))

    def list_call(self, e, fdot):
        """built-ins on lists; None when `e` is not one of them"""
        a, kw = e.args, {k.arg: k.value for k in e.keywords}
        r17 = self.path_call(e, fdot, a, kw)              # (C17) np.argwhere, np.min / np.max, element-wise np.maximum, any / all
        if r17 is not None:
            return r17
        if fdot in ("product", "itertools.product", "zip") and len(a) == 1 and isinstance(a[0], ast.Starred) and not kw:
            # as a value: the list of all results.  Python gives a one-shot iterator: a local bound to it may only be
            # advanced with `next(x)` and consumed by ONE `for` statement (see `block`, `for_loop`); unpacking is fine
            s_, et = self.iterable(e)
            return s_, list_of(et)
        if fdot == "len" and len(a) == 1 and not kw:
            s_, t_ = self.expr(a[0])
            if is_list(t_):
                return f"((List.length {s_} : Nat) : Int)", INT
            self.bad(e, f"len of a {t_}")
        if isinstance(e.func, ast.Attribute) and e.func.attr == "index" and isinstance(e.func.value, ast.Name) \
                and is_list(self.env.get(e.func.value.id, "")) and len(a) == 1 and not kw:
            lt = self.env[e.func.value.id]             # (C12) xs.index(v): position of the first occurrence (Python raises if absent)
            return f"(Rpylib.Py.indexOf {lname(e.func.value.id)} {self.expr_as(a[0], elem_of(lt))})", INT
        if fdot in ("sum", "np.sum", "numpy.sum", "math.fsum") and len(a) == 1 and not kw:
            s_, et = self.iterable(a[0])
            if et == BOOL:
                self.bad(e, "sum of booleans")
            if is_list(et):
                # PyLite 6 (C19): np.sum of a 2-d array (a list of rows) is the sum of all its entries; Python's own `sum` of a
                # 2-d array adds the rows (a vector): not translated
                if fdot in ("np.sum", "numpy.sum") and elem_of(et) in (INT, RAT):
                    return f"(List.sum (List.map List.sum {s_}))", elem_of(et)
                self.bad(e, f"{fdot} of a list of {et}")
            return f"(List.sum {s_})", et
        if fdot in ("np.diag", "numpy.diag") and len(a) == 1 and not kw:
            # PyLite 6 (C19): np.diag(v) of a 1-d float array: the square matrix (list of rows) with v on the diagonal, zeros elsewhere
            s_, t_ = self.expr(a[0])
            if t_ != "List Rat":
                self.bad(e, f"np.diag of a {t_} (only a 1-d float array is translated)")
            tmp = self.fresh("d")
            return (f"(let {tmp} : List Rat := {s_}; List.map (fun (p_ : Int × Rat) => Rpylib.Py.setAt "
                    f"(Rpylib.Py.zeros ((List.length {tmp} : Nat) : Int)) p_.1 p_.2) (Rpylib.Py.enumerate {tmp}))"), "List (List Rat)"
        if fdot in ("np.prod", "numpy.prod", "math.prod") and len(a) == 1 and not kw:
            s_, et = self.iterable(a[0])
            return (f"(Rpylib.Py.rprod {s_})", RAT) if et == RAT else (f"(Rpylib.Py.iprod {s_})", INT)
        if fdot in ("np.zeros", "numpy.zeros") and len(a) + len([k for k in kw if k == "shape"]) == 1 and set(kw) <= {"shape", "dtype"}:
            n = a[0] if a else kw["shape"]
            if isinstance(kw.get("dtype"), ast.Name) and kw["dtype"].id == "int" and self.fn.opts:     # PyLite 3
                return f"(Rpylib.Py.izeros {self.expr_as(n, INT)})", "List Int"
            if "dtype" in kw and _dotted(kw["dtype"]) not in ("float", "np.float64", "numpy.float64"):
                # (C09) an integer dtype outside PyLite 3: numpy's fixed-width integers are not modelled
                self.bad(e, "np.zeros with a non-float dtype (fixed-width integers are not modelled)")
            return f"(Rpylib.Py.zeros {self.expr_as(n, INT)})", "List Rat"
        if fdot in ("np.insert", "numpy.insert") and len(a) == 3 and not kw:
            s_, t_ = self.expr(a[0])
            if not is_list(t_):
                self.bad(e, "np.insert into a non-list")
            return f"(Rpylib.Py.insertAt {s_} {self.expr_as(a[1], INT)} {self.expr_as(a[2], elem_of(t_))})", t_
        if fdot in ("np.cumsum", "numpy.cumsum") and len(a) == 1 and not kw:
            s_, et = self.iterable(a[0])
            return f"(Rpylib.Py.cumsum {self.coerce(s_, list_of(et), 'List Rat')})", "List Rat"
        if fdot in ("np.searchsorted", "numpy.searchsorted") and len(a) == 2 and not kw:
            s_, et = self.iterable(a[0])
            return f"(Rpylib.Py.searchsorted {self.coerce(s_, list_of(et), 'List Rat')} {self.expr_as(a[1], RAT)})", INT
        if fdot in ("np.linspace", "numpy.linspace") and len(a) + len(kw) == 3 and set(kw) <= {"start", "stop", "num"}:
            names3 = ["start", "stop", "num"]
            given3 = dict(zip(names3, a))
            if any(k_ in given3 for k_ in kw):
                self.bad(e, "np.linspace: an argument given twice")
            given3.update(kw)
            if set(given3) != set(names3):
                self.bad(e, "np.linspace without start / stop / num")
            return (f"(Rpylib.Py.linspace {self.expr_as(given3['start'], RAT)} {self.expr_as(given3['stop'], RAT)} "
                    f"{self.expr_as(given3['num'], INT)})"), "List Rat"
        if fdot in ("np.concatenate", "numpy.concatenate") and len(a) == 1 and not kw and isinstance(a[0], (ast.Tuple, ast.List)) \
                and a[0].elts:
            typed = [self.expr(x)[1] for x in a[0].elts if not isinstance(x, (ast.List, ast.Tuple))]
            lt = next((t_ for t_ in typed if is_list(t_)), None)
            if lt is None or any(not is_list(t_) for t_ in typed):
                self.bad(e, "np.concatenate of something that is not a list")
            if any(t_ != lt for t_ in typed):
                lt = "List Rat" if {elem_of(t_) for t_ in typed} <= {INT, RAT} else self.bad(e, "np.concatenate of lists of different types")
            parts = [self.expr_as(x, lt) for x in a[0].elts]
            return "(" + " ++ ".join(parts) + ")", lt
        if fdot in ("list", "tuple", "np.array", "numpy.array", "np.asarray") and len(a) == 1 and not kw:
            if not isinstance(a[0], (ast.List, ast.Tuple, ast.ListComp, ast.GeneratorExp)) and fdot.startswith("n"):
                s0, t0 = self.expr(a[0])
                if t0 in (INT, RAT, NUM):              # np.array(x) of a number is that number
                    return s0, t0
                if is_list(t0):
                    return s0, t0
            s_, et = self.iterable(a[0])
            return s_, list_of(et)
        if fdot in ("max", "min") and len(a) >= 3 and not kw:
            parts = [self.expr(x) for x in a]
            tys = {t for _, t in parts}
            if not tys <= {INT, RAT, NUM}:
                self.bad(e, f"{fdot} of non-numbers")
            t_ = RAT if RAT in tys else INT
            fnm = {(RAT, "max"): "Rpylib.Py.rmax", (RAT, "min"): "Rpylib.Py.rmin", (INT, "max"): "Rpylib.Py.imax",
                   (INT, "min"): "Rpylib.Py.imin"}[(t_, fdot)]
            cs = [self.coerce(s_, ty_, t_) if ty_ != NUM else f"({s_} : {t_})" for s_, ty_ in parts]
            out = cs[0]
            for c_ in cs[1:]:
                out = f"({fnm} {out} {c_})"
            return out, t_
        if fdot in ("all", "any") and len(a) == 1 and not kw and self.fn.opts.get("lists"):
            s_, et = self.iterable(a[0])                       # (C14) all / any of a list of booleans
            if et != BOOL:
                self.bad(e, f"{fdot} of a list of {et}")
            return f"(List.{fdot} {s_} (fun (b_ : Bool) => b_))", BOOL
        if fdot == "next" and len(a) == 1 and not kw and isinstance(a[0], ast.GeneratorExp) and self.fn.opts.get("lists"):
            # (C14) `next(<generator expression>)`: its first element (Python raises StopIteration when there is none, here the
            # type's default value: caller's domain)
            s_, lt = self.comprehension(a[0])
            return f"(List.headD {s_} default)", elem_of(lt)
        if fdot in ("max", "min") and len(a) == 1 and not kw and self.fn.opts.get("lists"):
            # (C14) `max(xs)` / `min(xs)` of a list (tuple, deque, generator) of numbers: the 2-argument max / min folded from the
            # first element over the rest (Python raises ValueError on an empty argument, here the value is 0: caller's domain)
            s_, et = self.iterable(a[0])
            if et not in (INT, RAT):
                self.bad(e, f"{fdot} of a list of {et}")
            fnm = {(RAT, "max"): "Rpylib.Py.rmax", (RAT, "min"): "Rpylib.Py.rmin", (INT, "max"): "Rpylib.Py.imax",
                   (INT, "min"): "Rpylib.Py.imin"}[(et, fdot)]
            tmp = self.fresh("l")
            return f"(let {tmp} : {list_of(et)} := {s_}; List.foldl {fnm} (List.headD {tmp} 0) (List.tail {tmp}))", et
        r4 = self.pylite4_list_call(e, fdot, a, kw)
        if r4 is not None:
            return r4
        if fdot in ("partial", "functools.partial") and len(a) >= 1 and not kw:
            fs, ft = self.expr(a[0])
            if not (ft and ft.startswith("fn:")):
                self.bad(e, "partial of something that is not a declared function")
            tys = split_top(ft[3:], "→")
            if len(a) - 1 >= len(tys) - 1 + 1:
                self.bad(e, "partial with too many arguments")
            parts = [self.expr_as(x, want) for x, want in zip(a[1:], tys)]
            return "(" + " ".join([fs] + parts) + ")", "fn:" + " → ".join(tys[len(a) - 1:])
        return None

    # ---- conditions: return a Lean Prop string -------------------------------------------------------------------
    def as_bool(self, e) -> str:
        s, t = self.expr(e)
        if t == BOOL:
            return s
        self.bad(e, f"truth value of a {t}")

    def enum_test(self, e):
        """self.attr == Enum.MEMBER / self.attr in (Enum.A, Enum.B) / not in  ->  Bool parameters"""
        if not (isinstance(e, ast.Compare) and len(e.ops) == 1):
            return None
        l, op, r = e.left, e.ops[0], e.comparators[0]
        if not (isinstance(l, ast.Attribute) and isinstance(l.value, ast.Name) and l.value.id == "self"
                and l.attr in self.fn.enum_attrs):
            return None
        enum = self.fn.enum_attrs[l.attr]

        def member(x):
            if isinstance(x, ast.Attribute) and isinstance(x.value, ast.Name) and x.value.id == enum:
                nm = f"self_{l.attr.lstrip('_')}_is_{x.attr}"
                self.add_param(nm, BOOL)
                return nm
            self.bad(x, f"expected a member of {enum}")
        if isinstance(op, (ast.Eq, ast.Is)):
            return f"({member(r)} = true)"
        if isinstance(op, (ast.NotEq, ast.IsNot)):
            return f"(¬ {member(r)} = true)"
        if isinstance(op, (ast.In, ast.NotIn)) and isinstance(r, (ast.Tuple, ast.List, ast.Set)):
            body = " ∨ ".join(f"{member(x)} = true" for x in r.elts)
            return f"({body})" if isinstance(op, ast.In) else f"(¬ ({body}))"
        return None

    def prop(self, e) -> str:
        if self.fn.const_exprs and _norm_expr(e) in self.fn.const_exprs:
            nm, ty = self.fn.const_exprs[_norm_expr(e)]
            if ty.startswith("pred:"):
                return f"({self.pred_param(e, nm, ty)} = true)"
            self.add_param(nm, ty)
            return f"({nm} = true)" if ty == BOOL else f"({nm} ≠ 0)"
        et = self.enum_test(e)
        if et is not None:
            return et
        if isinstance(e, ast.Compare) and len(e.ops) == 1 and isinstance(e.ops[0], (ast.Is, ast.IsNot)) \
                and isinstance(e.comparators[0], ast.Constant) and e.comparators[0].value is None \
                and isinstance(e.left, ast.Name) and e.left.id in self.none_flag:
            flag = self.none_flag[e.left.id]
            return f"({flag} = true)" if isinstance(e.ops[0], ast.Is) else f"(¬ {flag} = true)"
        if isinstance(e, ast.Compare):
            parts = []
            left = e.left
            for op, right in zip(e.ops, e.comparators):
                a, ta = self.expr(left)
                b, tb = self.expr(right)
                sym = {ast.Lt: "<", ast.LtE: "≤", ast.Gt: ">", ast.GtE: "≥", ast.Eq: "=", ast.NotEq: "≠"}.get(type(op))
                if sym is None:
                    self.bad(e, f"comparison {type(op).__name__}")
                if ta == BOOL and tb == BOOL:
                    pass
                else:
                    a, b, t = self.join_num(e, a, ta, b, tb)
                    if t == NUM:
                        a = f"({a} : Int)"
                parts.append(f"{a} {sym} {b}")
                left = right
            return "(" + " ∧ ".join(parts) + ")"
        if isinstance(e, ast.BoolOp):
            sym = " ∧ " if isinstance(e.op, ast.And) else " ∨ "
            return "(" + sym.join(self.prop(v) for v in e.values) + ")"
        if isinstance(e, ast.UnaryOp) and isinstance(e.op, ast.Not):
            return f"(¬ {self.prop(e.operand)})"
        s, t = self.expr(e)
        if t == BOOL:
            return f"({s} = true)"
        if t in (INT, RAT):
            return f"({s} ≠ 0)"
        if is_list(t):                                # PyLite 3: a list / deque is true when it is not empty
            return f"({s} ≠ [])"
        self.bad(e, f"condition of type {t}")

    # ---- statements: a block is translated to one Lean term ------------------------------------------------------
    def block(self, stmts, k) -> str:
        """translate `stmts` followed by the continuation `k` (a list of statements, possibly empty)"""
        stmts = list(stmts) + list(k)
        if not stmts:
            if self.fn.stores:
                return self.stores_tuple()
            self.bad(self.node, "control reaches the end of the function without a return")
        s, rest = stmts[0], stmts[1:]
        rn = self.nd2_stmt(s, rest) if self.fn.opts.get("nd2") else None
        if rn is not None:
            return rn
        r3 = self.pylite3_stmt(s, rest)
        if r3 is not None:
            return r3
        rnd = self.nd_stmt(s, rest)
        if rnd is not None:
            return rnd
        rn6 = self.pylite6_stmt(s, rest)
        if rn6 is not None:
            return rn6
        rit = self.iter_stmt(s, rest)
        if rit is not None:
            return rit
        rls = self.lists_stmt(s, rest) if self.fn.opts.get("lists") else None
        if rls is not None:
            return rls
        if isinstance(s, ast.Expr) and isinstance(s.value, ast.Constant) and isinstance(s.value.value, str):
            return self.block(rest, [])
        if isinstance(s, (ast.Pass, ast.Assert)):
            return self.block(rest, [])
        if isinstance(s, ast.FunctionDef):
            return self.local_def(s, rest)
        if isinstance(s, ast.Return) and getattr(self, "local_ret", None) is not None:
            if s.value is None:
                self.bad(s, "return without a value")
            v, t = self.expr(s.value)
            if t == NUM:
                v, t = f"({v} : Int)", INT
            self.local_ret[0].append(t)
            want = self.local_ret[1]
            return v if want is None else self.coerce(v, t, want)
        if isinstance(s, ast.Return) and self.fn.stores:
            if s.value is None or (isinstance(s.value, ast.Constant) and s.value.value is None) \
                    or (isinstance(s.value, ast.Name) and s.value.id == "self"):
                return self.stores_tuple()
            self.bad(s, "a function with attribute stores returns a value")
        if isinstance(s, ast.Expr) and self.fn.ctor and _is_super_init(s.value):
            kws = {k_.arg: k_.value for k_ in s.value.keywords}
            if s.value.args or None in kws or set(kws) != set(self.fn.ctor):
                self.bad(s, f"constructor call whose keyword arguments are not exactly {sorted(self.fn.ctor)}")
            if not (not rest or (len(rest) == 1 and isinstance(rest[0], ast.Return) and isinstance(rest[0].value, ast.Name))):
                self.bad(s, "statements after the constructor call")
            wants = split_top(self.fn.ret, "×") if self.fn.ret else [None] * len(self.fn.ctor)
            if len(wants) != len(self.fn.ctor):
                self.bad(s, "`ret` does not have one component per constructor argument")
            return "(" + ", ".join(self.expr_as(kws[k_], _strip_parens(w_) if w_ else None)
                                   for k_, w_ in zip(self.fn.ctor, wants)) + ")"
        if isinstance(s, ast.Assign) and self.fn.ctor and len(s.targets) == 1 and isinstance(s.targets[0], ast.Name) \
                and _norm_expr(s.value) == "cls.__new__(cls)":
            return self.block(rest, [])                   # the object the constructor call below fills
        if isinstance(s, ast.Return):
            if s.value is None:
                self.bad(s, "return without a value")
            v, t = self.expr(s.value)
            return self.ret_coerce(s, v, t)
        if isinstance(s, ast.Raise):
            if self.fn.err is None:
                self.bad(s, "raise (no error value declared in the spec)")
            return self.fn.err
        if isinstance(s, ast.AugAssign) and isinstance(s.target, ast.Name):
            binop = ast.BinOp(left=ast.Name(id=s.target.id, ctx=ast.Load()), op=s.op, right=s.value)
            ast.copy_location(binop, s)
            return self.block([ast.copy_location(ast.Assign(targets=[s.target], value=binop), s)] + rest, [])
        if isinstance(s, ast.AnnAssign) and isinstance(s.target, ast.Name) and s.value is not None:
            return self.block([ast.copy_location(ast.Assign(targets=[s.target], value=s.value), s)] + rest, [])
        if isinstance(s, ast.Assign):
            if len(s.targets) != 1:
                self.bad(s, "chained assignment")
            tgt = s.targets[0]
            if isinstance(tgt, ast.Name) and isinstance(s.value, ast.Call) and _dotted(s.value.func) == "next" \
                    and len(s.value.args) == 2 and not s.value.keywords and isinstance(s.value.args[1], ast.Constant) \
                    and s.value.args[1].value is None and isinstance(s.value.args[0], (ast.GeneratorExp, ast.ListComp)):
                # (C12) x = next((.. for .. if ..), None): the first element if there is one; the flag `x_none` says whether
                # there is none (`x is None` / `x is not None` read the flag, like for an optional parameter)
                lst, lt = self.comprehension(s.value.args[0])
                et = elem_of(lt)
                tmp = self.fresh()
                saved, saved_flags = dict(self.env), dict(self.none_flag)
                self.env[tgt.id] = et
                self.none_flag[tgt.id] = lname(tgt.id) + "_none"
                body = self.block(rest, [])
                self.env, self.none_flag = saved, saved_flags
                return (f"let {tmp} : {lt} := {lst}\nlet {lname(tgt.id)} : {et} := (List.headD {tmp} default)\n"
                        f"let {lname(tgt.id)}_none : Bool := (List.isEmpty {tmp})\n{body}")
            if isinstance(tgt, ast.Name):
                dv = _dotted(s.value) if isinstance(s.value, (ast.Attribute, ast.Name)) else None
                if dv and dv.split(".")[0] in self.alias:
                    dv = self.alias[dv.split(".")[0]] + dv[len(dv.split(".")[0]):]
                if dv and dv.startswith("self.") and (any(k.startswith(dv[5:] + ".") for k in self.fn.self_attrs)
                                                      or any(k.startswith(dv + ".") for k in self.fn.opaque_fns)):
                    saved_alias = dict(self.alias)            # an object alias (params = self.parameters): no value to bind
                    self.alias[tgt.id] = dv
                    body = self.block(rest, [])
                    self.alias = saved_alias
                    return body
                v, t = self.expr(s.value)
                if t == NUM:
                    v, t = f"({v} : Int)", INT
                saved, saved_flags = dict(self.env), dict(self.none_flag)
                self.env[tgt.id] = t
                if tgt.id in self.none_flag:
                    self.none_flag[tgt.id] = "false"
                body = self.block(rest, [])
                self.env, self.none_flag = saved, saved_flags
                return f"let {lname(tgt.id)} : {_stream_ty(t[3:]) if t.startswith('fn:') else t} := {v}\n{body}"
            if isinstance(tgt, ast.Tuple) and all(isinstance(x, ast.Name) for x in tgt.elts):
                v, t = self.expr(s.value)
                tmp = self.fresh()
                saved = dict(self.env)
                lines = [f"let {tmp} : {t} := {v}"]
                if is_list(t):                     # a1, a2 = a   (Python raises unless len(a) == 2: the domain is the caller's)
                    tys = [elem_of(t)] * len(tgt.elts)
                    for i, (x, ty) in enumerate(zip(tgt.elts, tys)):
                        lines.append(f"let {lname(x.id)} : {ty} := (Rpylib.Py.idx {tmp} {i})")
                else:
                    tys = [_strip_parens(x) for x in split_top(t, "×")]
                    if len(tys) != len(tgt.elts):
                        self.bad(s, "tuple unpacking of a non-tuple")
                    for i, (x, ty) in enumerate(zip(tgt.elts, tys)):
                        lines.append(f"let {lname(x.id)} : {ty} := {self.proj(tmp, i, len(tys))}")
                for x, ty in zip(tgt.elts, tys):
                    self.env[x.id] = ty
                body = self.block(rest, [])
                self.env = saved
                return "\n".join(lines) + "\n" + body
            if isinstance(tgt, ast.Tuple) and isinstance(s.value, ast.Tuple) and len(tgt.elts) == len(s.value.elts) \
                    and any(isinstance(x, ast.Subscript) for x in tgt.elts) \
                    and all(isinstance(x, ast.Name) or (isinstance(x, ast.Subscript) and isinstance(x.value, ast.Name)
                                                        and is_list(self.env.get(x.value.id, "")) and not isinstance(x.slice, ast.Slice))
                            for x in tgt.elts):
                # (C12) xs[i], y = e1, e2: the right-hand sides are evaluated first, then the targets are assigned left to right
                lines, tmps = [], []
                for x, v in zip(tgt.elts, s.value.elts):
                    if isinstance(x, ast.Subscript):
                        ty = elem_of(self.env[x.value.id])
                        val = self.expr_as(v, ty)
                    else:
                        val, ty = self.expr(v)
                        if ty == NUM:
                            val, ty = f"({val} : Int)", INT
                    tmp = self.fresh()
                    lines.append(f"let {tmp} : {ty} := {val}")
                    tmps.append((tmp, ty))
                saved = dict(self.env)
                for x, (tmp, ty) in zip(tgt.elts, tmps):
                    if isinstance(x, ast.Subscript):
                        lt = self.env[x.value.id]
                        lines.append(f"let {lname(x.value.id)} : {lt} := (Rpylib.Py.setAt {lname(x.value.id)} {self.expr_as(x.slice, INT)} {tmp})")
                    else:
                        lines.append(f"let {lname(x.id)} : {ty} := {tmp}")
                        self.env[x.id] = ty
                body = self.block(rest, [])
                self.env = saved
                return "\n".join(lines) + "\n" + body
            if isinstance(tgt, ast.Subscript) and isinstance(tgt.value, ast.Name) and is_list(self.env.get(tgt.value.id, "")) \
                    and not isinstance(tgt.slice, ast.Slice):
                lt = self.env[tgt.value.id]
                new = f"(Rpylib.Py.setAt {lname(tgt.value.id)} {self.expr_as(tgt.slice, INT)} {self.expr_as(s.value, elem_of(lt))})"
                body = self.block(rest, [])
                return f"let {lname(tgt.value.id)} : {lt} := {new}\n{body}"
            self.bad(s, "assignment target")
        if isinstance(s, ast.Expr) and isinstance(s.value, ast.Call) and isinstance(s.value.func, ast.Attribute) \
                and s.value.func.attr == "pop" and isinstance(s.value.func.value, ast.Name) \
                and is_list(self.env.get(s.value.func.value.id, "")) and len(s.value.args) == 1 and not s.value.keywords:
            nm = s.value.func.value.id
            body = self.block(rest, [])
            return f"let {lname(nm)} : {self.env[nm]} := (Rpylib.Py.popAt {lname(nm)} {self.expr_as(s.value.args[0], INT)})\n{body}"
        if isinstance(s, _Yield):
            vals = []
            now = [self.env[n] for n in s.names]
            if self.yield_types is None:
                self.yield_types = now
            else:                                   # several paths reach the end of the body: join their types
                self.yield_types = [a_ if a_ == b_ else (RAT if {a_, b_} == {INT, RAT} else f"{a_}|{b_}")
                                    for a_, b_ in zip(self.yield_types, now)]
            for n, want in zip(s.names, self.state_types):
                vals.append(self.coerce(lname(n), self.env[n], want))
            return "(" + ", ".join(vals) + ")" if len(vals) != 1 else vals[0]
        if isinstance(s, ast.Break) and getattr(self, "brk_stack", None) and self.brk_stack[-1][0]:
            brk_, names_ = self.brk_stack[-1]     # (C17) leave the loop: the state now, with the flag "left" set (see `for_loop`)
            return f"let {brk_} : Bool := true\n" + self.block([_Yield(names_)], [])
        if isinstance(s, ast.For):
            return self.for_loop(s, rest)
        if isinstance(s, ast.If):
            c = self.prop(s.test)
            saved, saved_flags = dict(self.env), dict(self.none_flag)
            a = self.block(s.body, rest)
            self.env, self.none_flag = dict(saved), dict(saved_flags)
            b = self.block(s.orelse, rest)
            self.env, self.none_flag = saved, saved_flags
            return f"if {c} then\n{textwrap.indent(a, '  ')}\nelse\n{textwrap.indent(b, '  ')}"
        self.bad(s, f"statement {type(s).__name__}")

    def pred_param(self, e, nm, ty) -> str:
        """(C09) `const_exprs={"x==np.inf": ("is_pos_inf", "pred:x")}`: the test is the value of the function parameter
        `is_pos_inf : Rat → Bool` at the local `x`"""
        var = ty[5:]
        if self.env.get(var) != RAT:
            self.bad(e, f"predicate parameter {nm} on `{var}`, which is not a float local here")
        self.add_param(nm, "Rat → Bool")
        return f"({nm} {lname(var)})"

    def local_def(self, s: ast.FunctionDef, rest) -> str:
        """(C09) a nested `def`: a local function value.  Python's closure reads the current value of a captured variable when
        it is *called*, the Lean `let` captures the value at the definition: they agree when no captured name (and not the
        function's own name) is assigned after the `def`."""
        a = s.args
        if s.decorator_list or a.vararg or a.kwarg or a.kwonlyargs or a.posonlyargs or a.defaults or not a.args:
            self.bad(s, "nested def with decorators / defaults / star parameters / no parameter")
        if getattr(self, "local_ret", None) is not None:
            self.bad(s, "nested def inside a nested def")
        pnames = [p.arg for p in a.args]
        for n in ast.walk(s):
            if isinstance(n, (ast.Raise, ast.For, ast.While, ast.Global, ast.Nonlocal, ast.Lambda, ast.Yield, ast.YieldFrom)) \
                    or (isinstance(n, ast.FunctionDef) and n is not s):
                self.bad(n, f"{type(n).__name__} inside a nested def")
            if isinstance(n, ast.Name) and n.id == s.name:
                self.bad(n, "a nested def that refers to itself")
        stored_inside = {n.id for n in ast.walk(s) if isinstance(n, ast.Name) and isinstance(n.ctx, ast.Store)}
        captured = {n.id for n in ast.walk(s) if isinstance(n, ast.Name) and isinstance(n.ctx, ast.Load)} - set(pnames) - stored_inside
        for r_ in rest:
            for n in ast.walk(r_):
                if isinstance(n, ast.Name) and isinstance(n.ctx, (ast.Store, ast.Del)) and (n.id in captured or n.id == s.name):
                    self.bad(n, f"`{n.id}` is assigned after the nested def `{s.name}` that captures it")
        ptys = []
        for p in a.args:
            ty = self.fn.params.get(f"{s.name}.{p.arg}")
            if ty is None and isinstance(p.annotation, ast.Name):
                ty = _ANN.get(p.annotation.id)
            ptys.append(ty or RAT)
        saved = (dict(self.env), dict(self.none_flag), self.state_types, self.yield_types)
        body, want = None, None
        for _attempt in range(2):                      # first pass: the types of the returned values; second: coerced to their join
            self.env = dict(saved[0])
            for n_, t_ in zip(pnames, ptys):
                self.env[n_] = t_
            self.local_ret = ([], want)
            try:
                body = self.block(list(s.body), [])
            finally:
                got, self.local_ret = self.local_ret[0], None
            tys = set(got)
            if not tys:
                self.bad(s, "nested def without a return")
            if len(tys) == 1:
                want = next(iter(tys))
            elif tys == {INT, RAT}:
                want = RAT
            else:
                self.bad(s, f"nested def returning values of types {sorted(tys)}")
        self.env, self.none_flag, self.state_types, self.yield_types = saved[0], saved[1], saved[2], saved[3]
        fty = " → ".join([atom(t_) if "→" in t_ else t_ for t_ in ptys] + [want])
        binders = " ".join(f"({lname(n_)} : {t_})" for n_, t_ in zip(pnames, ptys))
        saved_env = dict(self.env)
        self.env[s.name] = "fn:" + fty
        tail = self.block(rest, [])
        self.env = saved_env
        return f"let {lname(s.name)} : {fty} := (fun {binders} =>\n{textwrap.indent(body, '    ')})\n{tail}"

    def stores_tuple(self) -> str:
        vals = [self.coerce(lname(_store_name(a_)), self.env[_store_name(a_)], t_) for a_, t_ in self.fn.stores.items()]
        return "(" + ", ".join(vals) + ")" if len(vals) != 1 else vals[0]

    def live_iteration_guard(self, s: ast.For):
        """Python iterates over a list *live*: an in-place change of the iterated list (`xs[i] = v`, `xs.pop(i)`, `xs += ..`)
        made by the body is seen by the following iterations, the fold iterates over the value on entry.  The two agree when the
        only in-place changes are `xs[i] = v` at the index `i` of the current item of `for i, .. in enumerate(xs)`."""
        it_names = {n.id for n in ast.walk(s.iter) if isinstance(n, ast.Name)}
        for n in ast.walk(s):
            tgt, kind = None, None
            if isinstance(n, ast.Assign) and len(n.targets) == 1 and isinstance(n.targets[0], ast.Subscript) \
                    and isinstance(n.targets[0].value, ast.Name):
                tgt, kind = n.targets[0].value.id, "item"
            elif isinstance(n, ast.AugAssign) and isinstance(n.target, ast.Name) and is_list(self.env.get(n.target.id, "")):
                tgt, kind = n.target.id, "aug"
            elif isinstance(n, ast.AugAssign) and isinstance(n.target, ast.Subscript) and isinstance(n.target.value, ast.Name):
                tgt, kind = n.target.value.id, "aug"
            elif isinstance(n, ast.Expr) and isinstance(n.value, ast.Call) and isinstance(n.value.func, ast.Attribute) \
                    and n.value.func.attr == "pop" and isinstance(n.value.func.value, ast.Name):
                tgt, kind = n.value.func.value.id, "pop"
            if tgt is None or tgt not in it_names or not is_list(self.env.get(tgt, "")):
                continue
            ok = False
            if kind == "item" and isinstance(s.iter, ast.Call) and _dotted(s.iter.func) == "enumerate" and len(s.iter.args) == 1 \
                    and isinstance(s.iter.args[0], ast.Name) and s.iter.args[0].id == tgt \
                    and isinstance(s.target, ast.Tuple) and isinstance(s.target.elts[0], ast.Name):
                i = s.target.elts[0].id
                rebinds_i = any(isinstance(x, ast.Name) and x.id == i and isinstance(x.ctx, ast.Store)
                                for b_ in s.body for x in ast.walk(b_))
                ok = isinstance(n.targets[0].slice, ast.Name) and n.targets[0].slice.id == i and not rebinds_i
            if not ok:
                self.bad(n, f"the loop body changes the list `{tgt}` it iterates over in place")

    # ---- (C14, `opts["lists"]`) tuples used as vectors: star calls, walrus in an `if` test, tuple results ---------------
    def lists_stmt(self, s, rest):
        """None when `s` is none of:
        `if (d := e) <op> ..:`   the walrus is the first thing the test evaluates: `d = e` followed by the `if` on `d`;
        `return f(*xs)`          `f` a declared opaque callable of k numbers, `xs` a list: `f xs[0] .. xs[k-1]` when
                                 len(xs) = k, the function's `err` value otherwise (Python raises TypeError);
        `return (a, ..)`         of a function whose declared result is a list: the list of the components;
        `return e`               of a function with `stores` and `opts["value_and_stores"]`: the tuple (e, final stores)."""
        if isinstance(s, ast.If) and isinstance(s.test, ast.Compare) and isinstance(s.test.left, ast.NamedExpr) \
                and isinstance(s.test.left.target, ast.Name) \
                and sum(isinstance(n, ast.NamedExpr) for n in ast.walk(s.test)) == 1:
            w = s.test.left
            assign = ast.copy_location(ast.Assign(targets=[ast.copy_location(ast.Name(id=w.target.id, ctx=ast.Store()), w)],
                                                  value=w.value), s)
            test = ast.copy_location(ast.Compare(left=ast.copy_location(ast.Name(id=w.target.id, ctx=ast.Load()), w),
                                                 ops=s.test.ops, comparators=s.test.comparators), s.test)
            return self.block([assign, ast.copy_location(ast.If(test=test, body=s.body, orelse=s.orelse), s)] + list(rest), [])
        if not isinstance(s, ast.Return) or s.value is None:
            return None
        v = s.value
        if isinstance(v, ast.Call) and len(v.args) == 1 and isinstance(v.args[0], ast.Starred) and not v.keywords \
                and _dotted(v.func) in self.fn.opaque_fns and self.fn.err is not None and not self.fn.stores:
            nm, atys, rty = self.fn.opaque_fns[_dotted(v.func)]
            xs, xt = self.expr(v.args[0].value)
            if atys and len(set(atys)) == 1 and atys[0] in (INT, RAT) and is_list(xt) and elem_of(xt) == atys[0] \
                    and rty == self.fn.ret:
                self.add_param(nm, " → ".join(list(atys) + [rty]))
                tmp = self.fresh("l")
                args = " ".join(f"(Rpylib.Py.idx {tmp} {i})" for i in range(len(atys)))
                return (f"let {tmp} : {xt} := {xs}\nif (List.length {tmp} = {len(atys)}) then\n  ({nm} {args})\nelse\n"
                        f"  {self.fn.err}")
            return None
        if isinstance(v, ast.Tuple) and self.fn.ret and is_list(self.fn.ret) and not self.fn.stores:
            return self.expr_as(v, self.fn.ret)
        if self.fn.stores and self.fn.opts.get("value_and_stores"):
            val, t = self.expr(v)
            want = _strip_parens(split_top(self.fn.ret, "×")[0]) if self.fn.ret else None
            val = f"({val} : {want})" if (t == NUM and want) else self.coerce(val, t, want)
            return f"({val}, {self.stores_tuple()})"
        return None

    # ---- one-shot iterators (`x = product(*xss)`, `next(x)`), statically decided tests --------------------------------
    def iter_stmt(self, s, rest):
        """None when `s` is none of: a test the spec decides statically (`opts["static_tests"]`: the definition is the
        function *specialised* to that case, said in its doc line), `x = product(*xss)` / `x = zip(*xss)` (x is bound to the
        list of all results and remembered as a one-shot iterator: afterwards only `next(x)` statements and ONE `for` over it
        are translatable), `next(x)` as a statement (drops the first result; Python raises StopIteration on an exhausted
        iterator where the list stays empty: the domain is the caller's)."""
        if isinstance(s, ast.If) and _norm_expr(s.test) in self.fn.opts.get("static_tests", {}):
            return self.block(s.body if self.fn.opts["static_tests"][_norm_expr(s.test)] else s.orelse, rest)
        if isinstance(s, ast.Assign) and len(s.targets) == 1 and isinstance(s.targets[0], ast.Name) \
                and isinstance(s.value, ast.Call) and _dotted(s.value.func) in ("product", "itertools.product", "zip") \
                and len(s.value.args) == 1 and isinstance(s.value.args[0], ast.Starred) and not s.value.keywords:
            v, t = self.expr(s.value)
            nm = s.targets[0].id
            saved, saved_it = dict(self.env), set(self.iters)
            self.env[nm] = t
            self.iters.add(nm)
            body = self.block(rest, [])
            self.env, self.iters = saved, saved_it
            return f"let {lname(nm)} : {t} := {v}\n{body}"
        if isinstance(s, ast.Assign) and len(s.targets) == 1 and isinstance(s.targets[0], ast.Name) \
                and s.targets[0].id in self.iters:
            self.bad(s, "a one-shot iterator is rebound")
        if isinstance(s, ast.Expr) and isinstance(s.value, ast.Call) and _dotted(s.value.func) == "next" \
                and len(s.value.args) == 1 and not s.value.keywords and isinstance(s.value.args[0], ast.Name) \
                and s.value.args[0].id in self.iters:
            nm = s.value.args[0].id
            body = self.block(rest, [])
            return f"let {lname(nm)} : {self.env[nm]} := (List.drop 1 {lname(nm)})\n{body}"
        return None

    def for_loop(self, s: ast.For, rest) -> str:
        if s.orelse:
            self.bad(s, "for ... else")
        self.live_iteration_guard(s)
        brk = None
        if any(isinstance(n, ast.Break) for n in ast.walk(s)):
            # (C17) `break` in a loop without inner loops: the fold carries one more Boolean state variable "the loop was left";
            # once it is set the remaining items leave the state unchanged; `break` sets it and ends the body
            if any(isinstance(n, (ast.For, ast.While)) and n is not s for n in ast.walk(s)):
                self.bad(s, "break in a loop that contains another loop")
            brk = self.fresh("brk")
        for n in ast.walk(s):
            if isinstance(n, (ast.Return, ast.Continue, ast.While, ast.Raise)) or (isinstance(n, ast.Break) and brk is None):
                self.bad(n, f"{type(n).__name__} inside a for loop")
        assigned = []
        for n in ast.walk(s):
            tg = []
            if isinstance(n, ast.Assign):
                tg = n.targets
            elif isinstance(n, (ast.AugAssign, ast.AnnAssign)):
                tg = [n.target]
            elif isinstance(n, ast.Expr) and isinstance(n.value, ast.Call) and isinstance(n.value.func, ast.Attribute) \
                    and n.value.func.attr == "pop" and isinstance(n.value.func.value, ast.Name):
                tg = [n.value.func.value]
            for t_ in tg:
                for x in ast.walk(t_):
                    if isinstance(x, ast.Name) and x.id not in assigned:
                        assigned.append(x.id)
        assigned += [n for n in self.pylite3_mutated(s) if n not in assigned]
        state = [n for n in assigned if n in self.env]           # outer variables the body rebinds; the others are loop-local
        if self.fn.opts.get("sorted_state") == "definition":
            state = [n for n in self.env if n in state]          # order of first binding in the function (robust to renaming)
        elif self.fn.opts.get("sorted_state"):
            state.sort()
        if not state:
            self.bad(s, "for loop that assigns no outer variable")
        if brk:
            self.env[brk] = BOOL
            state = state + [brk]
        consumed = s.iter.id if isinstance(s.iter, ast.Name) and s.iter.id in self.iters else None
        self.iter_ok = consumed is not None
        try:
            it, et = self.iterable(s.iter)
        finally:
            self.iter_ok = False
        if consumed:                       # exhausted by this loop: any later use of the name is untranslatable
            self.env.pop(consumed, None)
        types = [self.env[n] for n in state]
        saved_outer = (dict(self.env), self.state_types, self.yield_types, dict(self.none_flag))
        body = None
        for _attempt in range(3):
            self.env = dict(saved_outer[0])
            for n, t_ in zip(state, types):
                self.env[n] = t_
            self.state_types = list(types)
            self.yield_types = None
            tmp, st = self.fresh("x"), self.fresh("st")
            lines = [f"let {lname(n)} : {t_} := {self.proj(st, i, len(state)) if len(state) > 1 else st}"
                     for i, (n, t_) in enumerate(zip(state, types))]
            lines += self.bind_target(s.target, et, tmp)
            saved_obj = dict(self.obj_elem)
            self.mark_obj_targets(s.target, s.iter)       # PyLite 6 (C19): loop variables bound to elements of a list of objects
            ix = self.fresh("ix")
            self.ix_stack.append(ix)
            self.brk_stack = getattr(self, "brk_stack", []) + [(brk, state)]
            try:
                inner = self.block(list(s.body) + [_Yield(state)], [])
            finally:
                self.ix_stack.pop()
                self.brk_stack = self.brk_stack[:-1]
                self.obj_elem = saved_obj
            got = self.yield_types
            if got == types:
                if brk:
                    inner = f"if ({brk} = true) then\n  {st}\nelse\n{textwrap.indent(inner, '  ')}"
                body = "\n".join(lines) + "\n" + inner
                if ix in self.ix_used:            # PyLite 4: the body calls a variate stream: fold over (position, item)
                    body = f"let {ix} : Int := {tmp}_p.1\nlet {tmp} : {et} := {tmp}_p.2\n" + body
                    tmp, et, it = tmp + "_p", f"Int × {atom(et)}", f"(Rpylib.Py.enumerate {it})"
                break
            new = []
            for a_, b_ in zip(types, got):
                if a_ == b_:
                    new.append(a_)
                elif {a_, b_} == {INT, RAT}:
                    new.append(RAT)
                else:
                    self.bad(s, f"a loop variable changes its type from {a_} to {b_}")
            types = new
        if body is None:
            self.bad(s, "the types of the loop variables do not stabilise")
        self.env, self.state_types, self.yield_types, self.none_flag = saved_outer[0], saved_outer[1], saved_outer[2], saved_outer[3]
        sty = " × ".join(atom(t_) for t_ in types)
        init = ", ".join(self.coerce(lname(n), self.env[n], t_) for n, t_ in zip(state, types))
        init = f"({init})" if len(state) > 1 else init
        res = self.fresh("loop")
        out = [f"let {res} : {sty} := List.foldl (fun ({st} : {sty}) ({tmp} : {et}) =>\n{textwrap.indent(body, '    ')}) {init} {it}"]
        if brk:
            out.insert(0, f"let {brk} : Bool := false")
        saved = dict(self.env)
        for i, (n, t_) in enumerate(zip(state, types)):
            out.append(f"let {lname(n)} : {t_} := {self.proj(res, i, len(state)) if len(state) > 1 else res}")
            self.env[n] = t_
        tail = self.block(rest, [])
        self.env = saved
        return "\n".join(out) + "\n" + tail

    # ---- PyLite 4: numpy 1-d arrays as lists (element-wise arithmetic, np.diff / np.append / np.empty), variate streams ----
    def pylite4_binop(self, e, a, ta, b, tb):
        """element-wise arithmetic of 1-d numpy arrays, only in the forms that are a TypeError on Python lists (so the operands
        must be arrays): array * array, array - array, array / array; float-scalar + array, array + float-scalar (and -, *, /
        with a float scalar).  `list + list`, `int * list` (concatenation / repetition on Python lists) stay untranslatable.
        numpy raises for unequal lengths where `zipWith` truncates: the domain is the caller's."""
        if not (is_list(ta) or is_list(tb)):
            return None
        sym = {ast.Add: "+", ast.Sub: "-", ast.Mult: "*", ast.Div: "/"}.get(type(e.op))
        if sym is None:
            return None
        if is_list(ta) and is_list(tb):
            if sym == "+" or not {elem_of(ta), elem_of(tb)} <= {INT, RAT}:
                return None
            return (f"(List.zipWith (fun (x_ y_ : Rat) => x_ {sym} y_) {self.coerce(a, ta, 'List Rat')} "
                    f"{self.coerce(b, tb, 'List Rat')})"), "List Rat"
        (vs, vt), (ss, st), left = ((a, ta), (b, tb), True) if is_list(ta) else ((b, tb), (a, ta), False)
        if elem_of(vt) not in (INT, RAT) or st != RAT:
            return None
        if sym == "/" and not left:
            return None
        body = f"x_ {sym} {ss}" if left else f"{ss} {sym} x_"
        return f"(List.map (fun (x_ : Rat) => {body}) {self.coerce(vs, vt, 'List Rat')})", "List Rat"

    def stream_tag(self, node, stream) -> str:
        """the argument of a variate-stream call (`@` in the declared argument types of an opaque callable): the list
        [number of this call site among the call sites of the same sampler, positions in the enclosing loops /
        comprehensions].  Two dynamic calls of one sampler get different tags, so the (pure) Lean function parameter can
        return a fresh variate at every call, as the sampler does."""
        mine = [k for k in self.sites if k[0] == stream]
        site = self.sites.setdefault((stream, id(node)), len(mine))
        self.ix_used.update(self.ix_stack)
        return "[" + ", ".join([str(site)] + list(self.ix_stack)) + "]"

    def stream_of_local(self, name):
        """the declared opaque callable a local name is bound to (`f = self.process.nb_jump_dt`), else the name itself"""
        found = {_dotted(n.value) for n in ast.walk(self.node) if isinstance(n, ast.Assign) and len(n.targets) == 1
                 and isinstance(n.targets[0], ast.Name) and n.targets[0].id == name}
        if len(found) == 1 and next(iter(found)) in self.fn.opaque_fns:
            return next(iter(found))
        if found:
            self.bad(self.node, f"the local sampler {name} is bound to several things")
        return name

    def pylite4_call(self, e, fdot):
        """calls of declared opaque callables (directly or through a local alias) with a stream tag and / or with their single
        argument passed by keyword; None otherwise"""
        f = e.func
        if isinstance(f, ast.Name) and self.env.get(f.id, "").startswith("fn:"):
            head, tys = lname(f.id), split_top(self.env[f.id][3:], "→")
            atys, rty = tys[:-1], tys[-1]
            stream = self.stream_of_local(f.id) if atys and atys[0] == "@" else None
        elif fdot in self.fn.opaque_fns:
            head, atys, rty = self.fn.opaque_fns[fdot]
            atys, stream = list(atys), fdot
        else:
            return None
        tagged = bool(atys) and atys[0] == "@"
        real = atys[1:] if tagged else atys
        nodes = list(e.args)
        if e.keywords:
            if len(real) != 1 or nodes or len(e.keywords) != 1 or e.keywords[0].arg is None:
                return None                       # keyword arguments: only the single parameter of a one-parameter callable
            nodes = [e.keywords[0].value]
        elif not tagged:
            return None                           # the plain case is handled by the caller
        if len(nodes) != len(real):
            self.bad(e, f"call of {fdot or f.id} with {len(nodes)} arguments")
        if fdot in self.fn.opaque_fns and not (isinstance(f, ast.Name) and f.id in self.env):
            self.add_param(head, _stream_ty(" → ".join(list(atys) + [rty])))
        parts = ([self.stream_tag(e, stream)] if tagged else []) + [self.expr_as(x, want) for x, want in zip(nodes, real)]
        return "(" + " ".join([head] + parts) + ")", rty

    def pylite4_list_call(self, e, fdot, a, kw):
        if fdot in ("np.diff", "numpy.diff") and len(a) == 1 and set(kw) <= {"prepend"}:
            s_, et = self.iterable(a[0])
            s_ = self.coerce(s_, list_of(et), "List Rat")
            if "prepend" in kw:
                return f"(Rpylib.Py.diffFrom {self.expr_as(kw['prepend'], RAT)} {s_})", "List Rat"
            return f"(Rpylib.Py.diff {s_})", "List Rat"
        if fdot in ("np.empty", "numpy.empty") and len(a) + len([k for k in kw if k == "shape"]) == 1 and set(kw) <= {"shape", "dtype"}:
            n = a[0] if a else kw["shape"]
            if isinstance(kw.get("dtype"), ast.Name) and kw["dtype"].id != "float":
                return None
            if isinstance(n, ast.Constant) and n.value == 0:
                return "([] : List Rat)", "List Rat"
            # uninitialised memory: the opaque function Rpylib.Py.uninit of (call site, position) - nothing can be proved about
            # its values, so theorems hold for every content (and the signature does not depend on np.empty vs np.zeros)
            site = self.sites.setdefault(("np.empty", id(e)), len([k for k in self.sites if k[0] == "np.empty"]))
            return f"(List.map (Rpylib.Py.uninit {site}) (Rpylib.Py.range 0 {self.expr_as(n, INT)}))", "List Rat"
        if fdot in ("np.zeros_like", "numpy.zeros_like") and len(a) == 1 and set(kw) <= {"dtype"}:
            s_, t_ = self.expr(a[0])
            if is_list(t_) and elem_of(t_) in (INT, RAT) and not (isinstance(kw.get("dtype"), ast.Name) and kw["dtype"].id != "float"):
                return f"(Rpylib.Py.zeros ((List.length {s_} : Nat) : Int))", "List Rat"
            return None
        if fdot in ("np.append", "numpy.append") and len(a) == 2 and not kw:
            s_, t_ = self.expr(a[0])
            if not (is_list(t_) and elem_of(t_) in (INT, RAT)):
                return None
            v_, vt = self.expr(a[1])                # np.append ravels both arguments
            if vt in (INT, RAT, NUM):
                return f"({s_} ++ [{self.coerce(v_, vt, elem_of(t_)) if vt != NUM else '(' + v_ + ' : ' + elem_of(t_) + ')'}])", t_
            if is_list(vt) and is_list(elem_of(vt)) and elem_of(elem_of(vt)) == elem_of(t_):
                return f"({s_} ++ List.flatten {v_})", t_
            if is_list(vt) and (elem_of(vt) == elem_of(t_) or (elem_of(vt) == INT and elem_of(t_) == RAT)):
                return f"({s_} ++ {self.coerce(v_, vt, t_)})", t_
            return None
        return None

    # ---- PyLite 3: while loops (fuel), deques as lists, numpy vector scaling, `&` masks, counters -----------------------
    def pylite3_binop(self, e, a, ta, b, tb):
        op = e.op
        if isinstance(op, ast.BitAnd) and isinstance(e.right, ast.Constant) and type(e.right.value) is int and ta == INT \
                and e.right.value >= 0 and (e.right.value + 1) & e.right.value == 0:
            return f"(Int.fmod {a} {e.right.value + 1})", INT      # x & (2^k - 1) == x % 2^k for every Python int
        arrs = self.fn.opts.get("np_arrays") or ()
        if self.fn.opts and isinstance(op, ast.Add) and is_list(ta) and ta == tb \
                and not any(isinstance(x, ast.Name) and x.id in arrs for x in (e.left, e.right)):
            return f"({a} ++ {b})", ta                                # Python lists: concatenation
        if self.fn.opts and isinstance(op, ast.Mult):
            for cnt, (cs, ct), lst, (ls, lt) in ((e.left, (a, ta), e.right, (b, tb)), (e.right, (b, tb), e.left, (a, ta))):
                if isinstance(lst, ast.List) and is_list(lt) and ct in (INT, NUM):   # `k * [x, ..]`: repetition (k <= 0: empty)
                    k = cs if ct == INT else f"({cs} : Int)"
                    return f"(List.flatten (List.replicate (Int.toNat {k}) {ls}))", lt
        if isinstance(op, (ast.Mult, ast.Div)):
            for vec, (vs, vt), (ss, st), left in ((e.left, (a, ta), (b, tb), True), (e.right, (b, tb), (a, ta), False)):
                if isinstance(vec, ast.Name) and vec.id in arrs and is_list(vt) and st in (INT, RAT, NUM):
                    if isinstance(op, ast.Div) and not left:
                        self.bad(e, "scalar / vector")
                    et = RAT if (isinstance(op, ast.Div) or RAT in (elem_of(vt), st)) else INT
                    sc = f"({ss} : {et})" if st == NUM else self.coerce(ss, st, et)
                    x = "x_" if elem_of(vt) == et else f"((x_ : {elem_of(vt)}) : {et})"
                    sym = "/" if isinstance(op, ast.Div) else "*"
                    body = f"{x} {sym} {sc}" if left else f"{sc} {sym} {x}"
                    return f"(List.map (fun (x_ : {elem_of(vt)}) => {body}) {vs})", list_of(et)
        return None

    def pylite3_expr(self, e):
        """expressions of PyLite 3 (only for functions that declare `opts`); None when `e` is not one of them"""
        if isinstance(e, ast.Attribute) and e.attr == "size" and isinstance(e.value, ast.Name) \
                and is_list(self.env.get(e.value.id, "")):
            return f"((List.length {lname(e.value.id)} : Nat) : Int)", INT          # numpy: v.size of a vector
        if isinstance(e, ast.Call) and _dotted(e.func) in ("np.concatenate", "numpy.concatenate") and len(e.args) == 1 \
                and not e.keywords and isinstance(e.args[0], (ast.Tuple, ast.List)) and e.args[0].elts:
            parts = [self.expr(x) for x in e.args[0].elts]
            if all(is_list(t_) and elem_of(t_) in (INT, RAT) for _, t_ in parts):
                et = RAT if any(elem_of(t_) == RAT for _, t_ in parts) else INT
                return "(" + " ++ ".join(self.coerce(s_, t_, list_of(et)) for s_, t_ in parts) + ")", list_of(et)
        if isinstance(e, ast.Call) and _dotted(e.func) in ("np.empty", "numpy.empty", "np.empty_like", "numpy.empty_like"):
            # uninitialised numpy vectors: read as zeros (Python's content is arbitrary; code that reads an entry before
            # writing it has no defined value either way)
            kw = {k.arg: k.value for k in e.keywords}
            if _dotted(e.func).endswith("empty_like") and len(e.args) == 1 and not kw:
                s_, t_ = self.expr(e.args[0])
                if is_list(t_) and elem_of(t_) in (INT, RAT):
                    return (f"(Rpylib.Py.zeros ((List.length {s_} : Nat) : Int))", "List Rat") if elem_of(t_) == RAT \
                        else (f"(Rpylib.Py.izeros ((List.length {s_} : Nat) : Int))", "List Int")
            if _dotted(e.func).endswith("empty") and len(e.args) + ("shape" in kw) == 1 and set(kw) <= {"shape", "dtype"}:
                n = self.expr_as(e.args[0] if e.args else kw["shape"], INT)
                dt = _dotted(kw["dtype"]) if "dtype" in kw else "float"
                if dt in ("int", "np.int16", "np.int32", "np.int64", "np.uint", "np.intp"):
                    return f"(Rpylib.Py.izeros {n})", "List Int"
                if dt in ("float", "np.float64"):
                    return f"(Rpylib.Py.zeros {n})", "List Rat"
        return None

    def pylite3_mutated(self, node):
        """names of lists the statements under `node` mutate through `.append(v)` / `.pop()` / `.pop(i)`"""
        out = []
        for n in ast.walk(node):
            if isinstance(n, ast.Call) and isinstance(n.func, ast.Attribute) and n.func.attr in ("append", "pop", "appendleft") \
                    and isinstance(n.func.value, ast.Name) and is_list(self.env.get(n.func.value.id, "")) \
                    and n.func.value.id not in out:
                out.append(n.func.value.id)
        return out

    def pylite3_stmt(self, s, rest):
        """statements of PyLite 3; None when `s` is not one of them"""
        o = self.fn.opts
        if isinstance(s, ast.While):
            return self.while_loop(s, rest)
        if isinstance(s, ast.AugAssign) and _dotted(s.target) in (o.get("counters") or ()):
            name = _dotted(s.target)
            for n in ast.walk(self.node):
                if isinstance(n, ast.Attribute) and isinstance(n.ctx, ast.Load) and _dotted(n) == name:
                    self.bad(n, f"the counter {name} is read")
            return self.block(rest, [])
        call = s.value if isinstance(s, (ast.Expr, ast.Assign)) and isinstance(s.value, ast.Call) else None
        if call is not None and isinstance(call.func, ast.Attribute) and isinstance(call.func.value, ast.Name) \
                and is_list(self.env.get(call.func.value.id, "")) and not call.keywords:
            nm, lt = call.func.value.id, self.env[call.func.value.id]
            if isinstance(s, ast.Expr) and call.func.attr == "append" and len(call.args) == 1:
                v = self.expr_as(call.args[0], elem_of(lt))
                body = self.block(rest, [])
                return f"let {lname(nm)} : {lt} := ({lname(nm)} ++ [{v}])\n{body}"
            if isinstance(s, ast.Expr) and call.func.attr == "appendleft" and len(call.args) == 1:      # (C14) deque.appendleft
                v = self.expr_as(call.args[0], elem_of(lt))
                body = self.block(rest, [])
                return f"let {lname(nm)} : {lt} := ({v} :: {lname(nm)})\n{body}"
            if call.func.attr == "pop" and len(call.args) == 0:
                lines = []
                saved = dict(self.env)
                if isinstance(s, ast.Assign):
                    if len(s.targets) != 1 or not isinstance(s.targets[0], ast.Name) or s.targets[0].id == nm:
                        self.bad(s, "target of x.pop()")
                    tg = s.targets[0].id
                    lines.append(f"let {lname(tg)} : {elem_of(lt)} := (Rpylib.Py.idx {lname(nm)} (-1))")
                    self.env[tg] = elem_of(lt)
                lines.append(f"let {lname(nm)} : {lt} := (Rpylib.Py.popAt {lname(nm)} (-1))")
                body = self.block(rest, [])
                self.env = saved
                return "\n".join(lines) + "\n" + body
        if isinstance(s, ast.Assign) and len(s.targets) == 1 and isinstance(s.targets[0], ast.Name) \
                and (s.targets[0].id in (o.get("local_types") or {}) or o.get("empty_type")):
            v = s.value
            empty = (isinstance(v, ast.Call) and _dotted(v.func) in ("deque", "collections.deque", "list") and not v.args
                     and not v.keywords) or (isinstance(v, ast.List) and not v.elts)
            if empty:
                lt = (o.get("local_types") or {}).get(s.targets[0].id) or o["empty_type"]
                saved = dict(self.env)
                self.env[s.targets[0].id] = lt
                body = self.block(rest, [])
                self.env = saved
                return f"let {lname(s.targets[0].id)} : {lt} := []\n{body}"
        return None

    def while_loop(self, s: ast.While, rest) -> str:
        """`while c: body` -> `Rpylib.Py.whileLoop (fun st => decide c) (fun st => body) fuel init`; the loop state is the
        tuple of the outer variables the body rebinds; fuel exhausted with `c` still true -> the function's `err` value"""
        fuel = self.fn.opts.get("loop_fuel")
        if fuel is None or self.fn.err is None:
            self.bad(s, "while loop (no `loop_fuel` / `err` declared in the spec)")
        if s.orelse:
            self.bad(s, "while ... else")
        if self.fn.opts.get("lists") and isinstance(s.test, ast.Compare) and isinstance(s.test.left, ast.NamedExpr) \
                and isinstance(s.test.left.target, ast.Name) and sum(isinstance(n, ast.NamedExpr) for n in ast.walk(s.test)) == 1 \
                and not any(isinstance(n, ast.Continue) for n in ast.walk(s)):
            # (C14) `while (v := e) <op> c: BODY`  ==  `v = e; while v <op> c: BODY; v = e` (the walrus is evaluated first, before
            # every test)
            w = s.test.left
            assign = ast.copy_location(ast.Assign(targets=[ast.copy_location(ast.Name(id=w.target.id, ctx=ast.Store()), w)],
                                                  value=w.value), s)
            test = ast.copy_location(ast.Compare(left=ast.copy_location(ast.Name(id=w.target.id, ctx=ast.Load()), w),
                                                 ops=s.test.ops, comparators=s.test.comparators), s.test)
            loop = ast.copy_location(ast.While(test=test, body=list(s.body) + [assign], orelse=[]), s)
            return self.block([assign, loop] + list(rest), [])
        # `while True: BODY; if C: break`  ==  `st = BODY(st); while not C: st = BODY(st)`  (a do-while loop)
        do_while = None
        if isinstance(s.test, ast.Constant) and s.test.value is True and s.body and isinstance(s.body[-1], ast.If) \
                and not s.body[-1].orelse and len(s.body[-1].body) == 1 and isinstance(s.body[-1].body[0], ast.Break):
            do_while = s.body[-1].test
            s = ast.copy_location(ast.While(test=ast.UnaryOp(op=ast.Not(), operand=do_while), body=s.body[:-1], orelse=[]), s)
            ast.fix_missing_locations(s)
            if not s.body:
                self.bad(s, "empty do-while body")
        for n in ast.walk(s):
            if isinstance(n, (ast.Return, ast.Break, ast.Continue, ast.Raise)) or (isinstance(n, ast.While) and n is not s):
                self.bad(n, f"{type(n).__name__} inside a while loop")
        assigned = []
        for n in ast.walk(s):
            tg = n.targets if isinstance(n, ast.Assign) else [n.target] if isinstance(n, (ast.AugAssign, ast.AnnAssign)) else []
            for t_ in tg:
                if isinstance(t_, ast.Attribute):
                    continue
                for x in ast.walk(t_.value if isinstance(t_, ast.Subscript) else t_):
                    if isinstance(x, ast.Name) and x.id not in assigned:
                        assigned.append(x.id)
        assigned += [n for n in self.pylite3_mutated(s) if n not in assigned]
        state = [n for n in assigned if n in self.env]
        if self.fn.opts.get("sorted_state", True) == "definition":
            state = [n for n in self.env if n in state]
        elif self.fn.opts.get("sorted_state", True):
            state.sort()
        if not state:
            self.bad(s, "while loop that assigns no outer variable")
        types = [self.env[n] for n in state]
        saved_outer = (dict(self.env), self.state_types, self.yield_types, dict(self.none_flag))
        body = cond = None
        for _attempt in range(3):
            self.env = dict(saved_outer[0])
            for n, t_ in zip(state, types):
                self.env[n] = t_
            self.state_types, self.yield_types = list(types), None
            st = self.fresh("st")
            lines = [f"let {lname(n)} : {t_} := {self.proj(st, i, len(state)) if len(state) > 1 else st}"
                     for i, (n, t_) in enumerate(zip(state, types))]
            cond = "\n".join(lines) + f"\ndecide {self.prop(s.test)}"
            inner = self.block(list(s.body) + [_Yield(state)], [])
            got = self.yield_types
            if got == types:
                body = "\n".join(lines) + "\n" + inner
                break
            new = []
            for a_, b_ in zip(types, got):
                if a_ == b_:
                    new.append(a_)
                elif {a_, b_} == {INT, RAT}:
                    new.append(RAT)
                else:
                    self.bad(s, f"a loop variable changes its type from {a_} to {b_}")
            types = new
        if body is None:
            self.bad(s, "the types of the loop variables do not stabilise")
        self.env, self.state_types, self.yield_types, self.none_flag = saved_outer[0], saved_outer[1], saved_outer[2], saved_outer[3]
        sty = " × ".join(atom(t_) for t_ in types)
        init = ", ".join(self.coerce(lname(n), self.env[n], t_) for n, t_ in zip(state, types))
        init = f"({init})" if len(state) > 1 else init
        res = self.fresh("loop")
        if do_while is not None:
            bname = self.fresh("loopbody")
            out = [f"let {bname} : {sty} → {sty} := (fun ({st} : {sty}) =>\n{textwrap.indent(body, '    ')})",
                   f"(match Rpylib.Py.whileLoop (fun ({st} : {sty}) =>\n{textwrap.indent(cond, '    ')}) {bname} ({fuel}) ({bname} {init}) with",
                   f"| none => {self.fn.err}", f"| some {res} =>"]
        else:
            out = [f"(match Rpylib.Py.whileLoop (fun ({st} : {sty}) =>\n{textwrap.indent(cond, '    ')}) (fun ({st} : {sty}) =>\n"
                   f"{textwrap.indent(body, '    ')}) ({fuel}) {init} with",
                   f"| none => {self.fn.err}", f"| some {res} =>"]
        saved = dict(self.env)
        tail_lines = []
        for i, (n, t_) in enumerate(zip(state, types)):
            tail_lines.append(f"let {lname(n)} : {t_} := {self.proj(res, i, len(state)) if len(state) > 1 else res}")
            self.env[n] = t_
        tail = self.block(rest, [])
        self.env = saved
        return "\n".join(out) + "\n" + textwrap.indent("\n".join(tail_lines) + "\n" + tail, "  ") + ")"

    # ---- numpy vectors: ceil / floor, copy, astype, masked store ------------------------------------------------------
    _ND_FRESH = ("np.ceil", "numpy.ceil", "np.floor", "numpy.floor", "np.zeros", "numpy.zeros", "np.array", "numpy.array",
                 "np.cumsum", "numpy.cumsum", "np.insert", "numpy.insert", "np.append", "numpy.append", "np.zeros_like",
                 "numpy.zeros_like", "np.diff", "numpy.diff", "np.concatenate", "numpy.concatenate", "list", "np.empty_like",
                 "numpy.empty_like", "np.diag", "numpy.diag")
    _ND_PURE = ("np.sum", "numpy.sum", "sum", "len", "np.prod", "numpy.prod", "math.prod", "max", "min", "np.max", "np.min",
                "zip", "enumerate", "tuple", "math.fsum")

    def nd_fresh(self, v) -> bool:
        """does the expression `v` build a new array (a later in-place store into the name bound to it is then invisible
        through every other name)?"""
        if isinstance(v, (ast.BinOp, ast.ListComp)):
            return True
        if isinstance(v, ast.Call):
            f = v.func
            if isinstance(f, ast.Attribute) and f.attr in ("copy", "astype") and not v.keywords \
                    and _dotted(f.value) not in ("np", "numpy", "copy", "math"):
                return True
            fd = _dotted(f)
            return bool(fd) and (fd in self._ND_FRESH or fd in self.fn.fn_params)
        return False

    def nd_exposes(self, v, name) -> bool:
        """may the value of `v` share memory with the array called `name`?"""
        if isinstance(v, ast.Name):
            return v.id == name
        if isinstance(v, (ast.Subscript, ast.Attribute, ast.Starred)):
            return self.nd_exposes(v.value, name)
        if isinstance(v, (ast.Tuple, ast.List, ast.Set)):
            return any(self.nd_exposes(x, name) for x in v.elts)
        if isinstance(v, ast.IfExp):
            return self.nd_exposes(v.body, name) or self.nd_exposes(v.orelse, name)
        if isinstance(v, ast.Call) and not self.nd_fresh(v) and _dotted(v.func) not in self._ND_PURE:
            return any(self.nd_exposes(x, name) for x in list(v.args) + [k.value for k in v.keywords])
        return False

    def nd_require_owned(self, at, name, horizon=None):
        """the in-place store at `at` into the array `name` is a rebinding of `name` only if no other name can see the array:
        every assignment of `name` in the function binds a newly built array, and `name` is never bound to another name, put
        into a container, sliced (a view) or handed to an unknown callable (flow-insensitive, conservative).
        `horizon` (C07): a line number; statements that start after it are not looked at — for a caller that knows that they
        run after the last execution of the store (they follow the outermost loop around it)"""
        if any(p.arg == name for p in self.node.args.args):
            self.bad(at, f"in-place store into the parameter `{name}` (the caller's array)")
        for n in ast.walk(self.node):
            if horizon is not None and getattr(n, "lineno", 0) > horizon:
                continue
            if isinstance(n, (ast.Assign, ast.AnnAssign)) and n.value is not None:
                tgs = n.targets if isinstance(n, ast.Assign) else [n.target]
                for t_ in tgs:
                    if isinstance(t_, ast.Name) and t_.id == name and not self.nd_fresh(n.value):
                        self.bad(at, f"in-place store into `{name}`, which may be an alias (bound at line {n.lineno})")
                    if isinstance(t_, (ast.Tuple, ast.List)) and any(isinstance(x, ast.Name) and x.id == name for x in ast.walk(t_)):
                        self.bad(at, f"in-place store into `{name}`, bound by unpacking")
                if self.nd_exposes(n.value, name):
                    self.bad(at, f"in-place store into `{name}`, which is aliased at line {n.lineno}")
            elif isinstance(n, ast.Call) and not self.nd_fresh(n) and _dotted(n.func) not in self._ND_PURE \
                    and not (isinstance(n.func, ast.Attribute) and isinstance(n.func.value, ast.Name) and n.func.value.id == name):
                if any(self.nd_exposes(x, name) for x in list(n.args) + [k.value for k in n.keywords]):
                    self.bad(at, f"in-place store into `{name}`, which is passed to a callable at line {n.lineno}")
            elif isinstance(n, (ast.For, ast.comprehension)) and any(
                    isinstance(x, ast.Name) and x.id == name for x in ast.walk(n.target)):
                self.bad(at, f"in-place store into `{name}`, a loop variable")

    def nd_call(self, e, fdot):
        """np.ceil / np.floor / math.ceil / math.floor, `u.copy()`, `u.astype(int | float)`; None when `e` is none of them"""
        if fdot and (fdot in self.fn.opaque_fns or fdot in self.fn.fn_params or fdot in self.fn.const_calls):
            return None
        f = e.func
        if fdot in ("np.ceil", "numpy.ceil", "np.floor", "numpy.floor") and len(e.args) == 1 and not e.keywords:
            fn_ = "Rpylib.Py.rceil" if fdot.endswith("ceil") else "Rpylib.Py.rfloor"
            s_, t_ = self.expr(e.args[0])
            if is_list(t_) and elem_of(t_) in (INT, RAT):
                return f"(List.map {fn_} {self.coerce(s_, t_, 'List Rat')})", "List Rat"
            if t_ in (INT, RAT, NUM):
                return f"({fn_} {self.coerce(s_, t_, RAT) if t_ != NUM else '(' + s_ + ' : Rat)'})", RAT
            self.bad(e, f"{fdot} of a {t_}")
        if fdot in ("math.ceil", "math.floor") and len(e.args) == 1 and not e.keywords:
            s_, t_ = self.expr(e.args[0])
            if t_ in (INT, RAT, NUM):
                x = self.coerce(s_, t_, RAT) if t_ != NUM else f"({s_} : Rat)"
                return f"({'Rat.ceil' if fdot.endswith('ceil') else 'Rat.floor'} {x})", INT
            self.bad(e, f"{fdot} of a {t_}")
        if isinstance(f, ast.Attribute) and f.attr in ("copy", "astype") and not e.keywords \
                and _dotted(f.value) not in ("np", "numpy", "copy", "math"):
            if f.attr == "copy" and not e.args:
                s_, t_ = self.expr(f.value)
                if is_list(t_):
                    return s_, t_                     # a new array with the same content: values are immutable here
                self.bad(e, f"copy() of a {t_}")
            if f.attr == "astype" and len(e.args) == 1 and isinstance(e.args[0], ast.Name) and e.args[0].id in ("int", "float"):
                s_, t_ = self.expr(f.value)
                if not (is_list(t_) and elem_of(t_) in (INT, RAT)):
                    self.bad(e, f"astype of a {t_}")
                if e.args[0].id == "float":
                    return self.coerce(s_, t_, "List Rat"), "List Rat"
                if elem_of(t_) == INT:
                    return s_, t_
                # float -> C long: truncation towards zero (|x| < 2^63, nan / inf excluded: the caller's domain)
                return f"(List.map Rpylib.Py.truncInt {s_})", "List Int"
        return None

    def nd_stmt(self, s, rest):
        """the masked store `u[u <op> c] = v` (numpy: in place, where the mask holds) on an array this function owns; None
        when `s` is not one"""
        if not (isinstance(s, ast.Assign) and len(s.targets) == 1 and isinstance(s.targets[0], ast.Subscript)):
            return None
        tg = s.targets[0]
        if not (isinstance(tg.value, ast.Name) and is_list(self.env.get(tg.value.id, "")) and isinstance(tg.slice, ast.Compare)
                and len(tg.slice.ops) == 1 and isinstance(tg.slice.left, ast.Name) and tg.slice.left.id == tg.value.id):
            return None
        name, lt = tg.value.id, self.env[tg.value.id]
        et = elem_of(lt)
        if et not in (INT, RAT):
            self.bad(s, f"masked store into a {lt}")
        self.nd_require_owned(s, name)
        tmp = self.fresh("m")
        saved = dict(self.env)
        self.env[tmp] = et
        cmp_ = ast.copy_location(ast.Compare(left=ast.copy_location(ast.Name(id=tmp, ctx=ast.Load()), tg.slice),
                                             ops=tg.slice.ops, comparators=tg.slice.comparators), tg.slice)
        c = self.prop(cmp_)
        self.env = saved
        v, vt = self.expr(s.value)
        if vt not in (INT, RAT, NUM) or (et == INT and vt == RAT):
            self.bad(s, f"masked store of a {vt} into a {lt}")
        val = f"({v} : {et})" if vt == NUM else self.coerce(v, vt, et)
        body = self.block(rest, [])
        return (f"let {lname(name)} : {lt} := (List.map (fun ({tmp} : {et}) => if {c} then {val} else {tmp}) {lname(name)})\n"
                f"{body}")

    # ---- (C17) paths: multi-axis subscripts, masks -> indices, reductions, element-wise maximum --------------------------
    def path_index(self, e):
        """numpy subscripts with several axes of a list (1-d array) or a list of lists (2-d array): `x[..., i]`, `x[..., a:b]`,
        `x[i, ...]`, `x[i, j]` (an Ellipsis stands for the axes that are not named; an axis that is not indexed is mapped over:
        `x[..., -1]` of a 2-d array is the list of the last entries of its rows).  None when `e.slice` is not a tuple."""
        if not isinstance(e.slice, ast.Tuple):
            return None
        vs, vt = self.expr(e.value)
        depth, t_ = 0, vt
        while is_list(t_):
            depth, t_ = depth + 1, elem_of(t_)
        items = list(e.slice.elts)
        ell = [i for i, x in enumerate(items) if isinstance(x, ast.Constant) and x.value is Ellipsis]
        if depth == 0 or len(ell) > 1 or len(items) - len(ell) > depth:
            self.bad(e, f"subscript with {len(items)} axes of a value of type {vt}")
        if ell:
            items = items[:ell[0]] + [None] * (depth - (len(items) - 1)) + items[ell[0] + 1:]

        def apply(term, ty, its):
            if not its or all(x is None for x in its):
                return term, ty
            x, rest = its[0], its[1:]
            if x is None or isinstance(x, ast.Slice):
                if isinstance(x, ast.Slice):
                    if x.step is not None or (x.lower is not None and x.upper is not None):
                        self.bad(e, "slice with a step or with both bounds")
                    if x.upper is not None:
                        term = f"(Rpylib.Py.sliceTo {term} {self.expr_as(x.upper, INT)})"
                    if x.lower is not None:
                        term = f"(Rpylib.Py.sliceFrom {term} {self.expr_as(x.lower, INT)})"
                if not rest or all(y is None for y in rest):
                    return term, ty
                r_ = self.fresh("r")
                inner, it_ = apply(r_, elem_of(ty), rest)
                return f"(List.map (fun ({r_} : {elem_of(ty)}) => {inner}) {term})", list_of(it_)
            return apply(f"(Rpylib.Py.idx {term} {self.expr_as(x, INT)})", elem_of(ty), rest)
        return apply(vs, vt, items)

    def path_fancy(self, e):
        """`xs[js]` with `js` a list of positions (numpy integer-array indexing of a 1-d array): the entries at these positions, in
        the order of `js`.  None when the subscript is not a list-typed name / expression of integers."""
        if isinstance(e.slice, (ast.Slice, ast.Constant, ast.Tuple)):
            return None
        if not (isinstance(e.slice, ast.Name) and self.env.get(e.slice.id) == "List Int"):
            return None
        vs, vt = self.expr(e.value)
        if not (is_list(vt) and elem_of(vt) in (INT, RAT)):
            return None
        j_ = self.fresh("j")
        return f"(List.map (fun ({j_} : Int) => Rpylib.Py.idx {vs} {j_}) {lname(e.slice.id)})", vt

    def path_super(self, e):
        """`super().m(..)` in a class with exactly one base class `Base` whose own method `Base.m` is a function of this
        translation unit: the call `Base.m(..)` (the translated definitions take the attributes they read as parameters, so the
        receiver is the same object)."""
        f = e.func
        if not (isinstance(f, ast.Attribute) and isinstance(f.value, ast.Call) and isinstance(f.value.func, ast.Name)
                and f.value.func.id == "super" and not f.value.args and not f.value.keywords and self.cls):
            return e
        cdef = next((n for n in self.unit.tree.body if isinstance(n, ast.ClassDef) and n.name == self.cls), None)
        if cdef is None or len(cdef.bases) != 1 or not isinstance(cdef.bases[0], ast.Name):
            return e
        base = cdef.bases[0].id
        if f"{base}.{f.attr}" not in self.unit.fns:
            return e
        new = ast.Call(func=ast.Attribute(value=ast.Name(id=base, ctx=ast.Load()), attr=f.attr, ctx=ast.Load()),
                       args=e.args, keywords=e.keywords)
        return ast.fix_missing_locations(ast.copy_location(new, e))

    def path_call(self, e, fdot, a, kw):
        """`np.argwhere(xs <op> c)` of a 1-d array: the positions where the comparison holds, in increasing order (numpy returns
        them as an (n, 1) array: read as the list of its n entries — `.size`, `len`, `np.min` / `np.max` agree);
        `np.min / np.max / np.amin / np.amax (xs)` of a list of numbers (numpy raises on an empty array, here the value is 0:
        the caller's domain); `np.maximum / np.minimum` of a scalar and a 1-d array (element-wise); `any / all` of a
        comprehension of conditions.  None when `e` is none of them."""
        if kw or not fdot:
            return None
        if fdot in ("np.diff", "numpy.diff") and len(a) == 1:
            s_, t_ = self.expr(a[0])
            if t_ == "List (List Rat)":                   # np.diff of a 2-d array: along the last axis, row by row
                return f"(List.map Rpylib.Py.diff {s_})", t_
            return None
        if fdot in ("copy.copy", "copy.deepcopy", "np.copy", "numpy.copy") and len(a) == 1:
            s_, t_ = self.expr(a[0])
            if is_list(t_):
                return s_, t_                             # a new array with the same content: values are immutable here
            return None
        if fdot in ("np.argwhere", "numpy.argwhere", "np.flatnonzero", "numpy.flatnonzero") and len(a) == 1 \
                and isinstance(a[0], ast.Compare) and len(a[0].ops) == 1:
            ls, lt = self.expr(a[0].left)
            arr_left = is_list(lt)
            if not arr_left:                          # `c <op> xs`: the array is the right operand
                ls, lt = self.expr(a[0].comparators[0])
            if not (is_list(lt) and elem_of(lt) in (INT, RAT)):
                return None
            tmp, q = self.fresh("m"), self.fresh("q")
            saved = dict(self.env)
            self.env[tmp] = elem_of(lt)
            item = ast.copy_location(ast.Name(id=tmp, ctx=ast.Load()), a[0])
            cmp_ = ast.copy_location(ast.Compare(left=item if arr_left else a[0].left, ops=a[0].ops,
                                                 comparators=a[0].comparators if arr_left else [item]), a[0])
            c = self.prop(cmp_)
            self.env = saved
            return (f"(List.map Prod.fst (List.filter (fun ({q} : Int × {elem_of(lt)}) => let {tmp} : {elem_of(lt)} := {q}.2; "
                    f"decide {c}) (Rpylib.Py.enumerate {ls})))"), "List Int"
        if fdot in ("np.min", "np.max", "np.amin", "np.amax", "numpy.min", "numpy.max", "numpy.amin", "numpy.amax") and len(a) == 1:
            s_, t_ = self.expr(a[0])
            if not (is_list(t_) and elem_of(t_) in (INT, RAT)):
                return None
            fnm = {(RAT, True): "Rpylib.Py.rmax", (RAT, False): "Rpylib.Py.rmin", (INT, True): "Rpylib.Py.imax",
                   (INT, False): "Rpylib.Py.imin"}[(elem_of(t_), fdot.endswith("max"))]
            tmp = self.fresh("l")
            return f"(let {tmp} : {t_} := {s_}; List.foldl {fnm} (List.headD {tmp} 0) (List.tail {tmp}))", elem_of(t_)
        if fdot in ("np.maximum", "np.minimum", "numpy.maximum", "numpy.minimum") and len(a) == 2:
            (x, tx), (y, ty) = self.expr(a[0]), self.expr(a[1])
            if is_list(tx) == is_list(ty):
                return None
            fnm = "Rpylib.Py.rmax" if fdot.endswith("maximum") else "Rpylib.Py.rmin"
            (vs, vt), (ss, st) = ((x, tx), (y, ty)) if is_list(tx) else ((y, ty), (x, tx))
            if elem_of(vt) not in (INT, RAT) or st not in (INT, RAT, NUM):
                return None
            sc = f"({ss} : Rat)" if st == NUM else self.coerce(ss, st, RAT)
            body = f"{fnm} x_ {sc}" if is_list(tx) else f"{fnm} {sc} x_"
            return f"(List.map (fun (x_ : Rat) => {body}) {self.coerce(vs, vt, 'List Rat')})", "List Rat"
        if fdot in ("any", "all") and len(a) == 1 and isinstance(a[0], (ast.GeneratorExp, ast.ListComp)):
            s_, t_ = self.comprehension(a[0])
            if elem_of(t_) != BOOL:
                self.bad(e, f"{fdot} of a list of {elem_of(t_)}")
            return f"(List.{fdot} {s_} (fun (b_ : Bool) => b_))", BOOL
        return None

    # ---- PyLite nd2 (C07): 2-d numpy arrays as lists of rows — axis-0 reductions, covariance, products, try / except ------
    _MAT, _VEC, _TEN = "List (List Rat)", "List Rat", "List (List (List Rat))"

    def nd2_slice(self, s, sl):
        """`xs[a:b]` / `xs[:b]` / `xs[a:]` / `xs[:]`; with both bounds the lower one must be a literal >= 0 (then
        xs[a:b] == xs[:b][a:]); `xs[0:b]` is `xs[:b]`"""
        if sl.step is not None:
            self.bad(sl, "slice with a step")
        out = s
        lit = isinstance(sl.lower, ast.Constant) and type(sl.lower.value) is int and sl.lower.value >= 0
        if sl.upper is not None:
            if sl.lower is not None and not lit:
                self.bad(sl, "slice with both bounds whose lower bound is not a literal >= 0")
            out = f"(Rpylib.Py.sliceTo {out} {self.expr_as(sl.upper, INT)})"
        if sl.lower is not None and not (lit and sl.lower.value == 0):
            out = f"(Rpylib.Py.sliceFrom {out} {self.expr_as(sl.lower, INT)})"
        return out

    def nd2_expr(self, e):
        """(only for functions that declare `opts["nd2"]`) a 2-d numpy array is the list of its rows (`List (List Rat)`; the
        theorems state rectangularity as a hypothesis), a 3-d one a list of those.  `m.T` (1-d: the array itself; 2-d:
        `Rpylib.Py.transpose`; 3-d: all axes reversed), `m.size` (number of entries), `m[r, c]` with slices / indices,
        `np.mean / np.var / np.std (.., axis=0, ddof=k)` (`np.std` is `np.sqrt` of the variance: `np.sqrt` must be a declared
        `fn_params`), `np.cov(a, b, bias=.., ddof=..)` (variables in rows; numpy's rule for the divisor), `np.dot`,
        `np.amin / np.amax / np.min / np.max` of a whole array, `np.absolute`, `np.empty_like` of a 2-d array
        (content: the opaque `Rpylib.Py.uninit2`).  None when `e` is none of these."""
        M, V, T3 = self._MAT, self._VEC, self._TEN
        if isinstance(e, ast.Attribute) and e.attr in ("T", "size"):
            if isinstance(e.value, ast.Name) and e.value.id not in self.env:
                return None
            s, t = self.expr(e.value)
            if e.attr == "T":
                if t == V:
                    return s, V                                      # the transpose of a 1-d array is the array itself
                if t == M:
                    return f"(Rpylib.Py.transpose {s})", M
                if t == T3:                                          # (n, k, d) -> (d, k, n)
                    tr = "(fun (nd_m : List (List Rat)) => Rpylib.Py.transpose nd_m)"
                    return f"(List.map {tr} (Rpylib.Py.transpose (List.map {tr} {s})))", T3
                self.bad(e, f".T of a {t}")
            if t == M:
                return f"(Rpylib.Py.size2 {s})", INT
            return None
        if isinstance(e, ast.Subscript) and isinstance(e.slice, ast.Tuple) and len(e.slice.elts) == 2 \
                and not (isinstance(e.value, ast.Name) and e.value.id not in self.env):
            s, t = self.expr(e.value)
            if t != M:
                return None
            r, c = e.slice.elts
            if isinstance(r, ast.Slice):
                rows = self.nd2_slice(s, r)
                if isinstance(c, ast.Slice):
                    return f"(List.map (fun (nd_r : List Rat) => {self.nd2_slice('nd_r', c)}) {rows})", M
                return f"(List.map (fun (nd_r : List Rat) => Rpylib.Py.idx nd_r {self.expr_as(c, INT)}) {rows})", V
            row = f"(Rpylib.Py.idx {s} {self.expr_as(r, INT)})"
            if isinstance(c, ast.Slice):
                return self.nd2_slice(row, c), V
            return f"(Rpylib.Py.idx {row} {self.expr_as(c, INT)})", RAT
        if isinstance(e, ast.Call):
            fdot = (_dotted(e.func) or "").replace("numpy.", "np.")
            a, kw = e.args, {k.arg: k.value for k in e.keywords}
            if None in kw or any(isinstance(x, ast.Starred) for x in a):
                return None

            def axis0(flat_ok=True):
                """True: reduce along axis 0; False: over the whole array"""
                ax = kw.get("axis")
                if ax is None or (isinstance(ax, ast.Constant) and ax.value is None):
                    return False
                if isinstance(ax, ast.Constant) and type(ax.value) is int and ax.value == 0:
                    return True
                self.bad(e, f"{fdot} along an axis other than 0")
            if fdot in ("np.mean", "np.var", "np.std") and len(a) == 1 and set(kw) <= ({"axis"} if fdot == "np.mean" else {"axis", "ddof"}):
                s, t = self.expr(a[0])
                if t not in (V, M):
                    self.bad(e, f"{fdot} of a {t}")
                ax0 = axis0()
                ddof = self.expr_as(kw["ddof"], INT) if "ddof" in kw else "0"
                if fdot == "np.std":
                    nm = self.fn.fn_params.get("np.sqrt")
                    if nm is None:
                        self.bad(e, "np.std needs `np.sqrt` declared in fn_params (the standard deviation is np.sqrt of the variance)")
                    self.add_param(nm, "Rat → Rat")
                if t == M and ax0:
                    if fdot == "np.mean":
                        return f"(Rpylib.Py.meanAxis0 {s})", V
                    v = f"(Rpylib.Py.varAxis0 {s} {ddof})"
                    return (v, V) if fdot == "np.var" else (f"(List.map {nm} {v})", V)
                flat = s if t == V else f"(List.flatten {s})"
                if fdot == "np.mean":
                    return f"(Rpylib.Py.mean {flat})", RAT
                v = f"(Rpylib.Py.var {flat} {ddof})"
                return (v, RAT) if fdot == "np.var" else (f"({nm} {v})", RAT)
            if fdot == "np.cov" and 1 <= len(a) <= 2 and set(kw) <= {"y", "bias", "ddof"} and not (len(a) == 2 and "y" in kw):
                parts = [self.expr(x) for x in list(a) + ([kw["y"]] if "y" in kw else [])]
                if any(t not in (V, M) for _, t in parts) or (len(parts) == 1 and parts[0][1] == V):
                    self.bad(e, "np.cov of these arguments")
                rows = " ++ ".join(s if t == M else f"[{s}]" for s, t in parts)
                bias = kw.get("bias")
                if bias is not None and not (isinstance(bias, ast.Constant) and isinstance(bias.value, bool)):
                    self.bad(e, "np.cov with a bias that is not a literal")
                dd = kw.get("ddof")
                if dd is None or (isinstance(dd, ast.Constant) and dd.value is None):
                    ddof = "0" if (bias is not None and bias.value) else "1"       # numpy: ddof = 0 if bias else 1
                else:
                    ddof = self.expr_as(dd, INT)
                return f"(Rpylib.Py.covMatrix ({rows}) {ddof})", M
            if fdot == "np.dot" and len(a) == 2 and not kw:
                (x, tx), (y, ty) = self.expr(a[0]), self.expr(a[1])
                fn_ = {(V, V): ("Rpylib.Py.dot", RAT), (M, V): ("Rpylib.Py.matVec", V), (V, M): ("Rpylib.Py.vecMat", V)}.get((tx, ty))
                if fn_ is None:
                    self.bad(e, f"np.dot of a {tx} and a {ty}")
                return f"({fn_[0]} {x} {y})", fn_[1]
            if fdot in ("np.amin", "np.amax", "np.min", "np.max") and len(a) == 1 and not kw:
                s, t = self.expr(a[0])
                if t not in (V, M):
                    return None
                fn_ = "Rpylib.Py.rminList" if fdot.endswith("min") else "Rpylib.Py.rmaxList"
                return f"({fn_} {s if t == V else '(List.flatten ' + s + ')'})", RAT
            if fdot in ("np.absolute", "np.abs", "np.fabs") and len(a) == 1 and not kw:
                s, t = self.expr(a[0])
                if t == V:
                    return f"(List.map Rpylib.Py.rabs {s})", V
                if t == M:
                    return f"(List.map (fun (nd_r : List Rat) => List.map Rpylib.Py.rabs nd_r) {s})", M
                if t == RAT:
                    return f"(Rpylib.Py.rabs {s})", RAT
                return None
            if fdot == "np.empty_like" and len(a) == 1 and not kw:
                s, t = self.expr(a[0])
                if t != M:
                    return None
                site = self.sites.setdefault(("np.empty", id(e)), len([k for k in self.sites if k[0] == "np.empty"]))
                return f"(Rpylib.Py.emptyLike2 {site} {s})", M
        return None

    def nd2_binop(self, e, a, ta, b, tb):
        """`m @ v`, `v @ m`, `v @ w`; broadcasting of a 2-d array with a 1-d array along the last axis (`m - v`: every row
        minus `v`) and with a scalar.  None for other operand types."""
        M, V = self._MAT, self._VEC
        if isinstance(e.op, ast.MatMult):
            fn_ = {(V, V): ("Rpylib.Py.dot", RAT), (M, V): ("Rpylib.Py.matVec", V), (V, M): ("Rpylib.Py.vecMat", V)}.get((ta, tb))
            if fn_ is None:
                self.bad(e, f"`@` of a {ta} and a {tb}")
            return f"({fn_[0]} {a} {b})", fn_[1]
        sym = {ast.Add: "+", ast.Sub: "-", ast.Mult: "*", ast.Div: "/"}.get(type(e.op))
        if sym is None or M not in (ta, tb):
            return None
        if (ta, tb) == (M, V):
            return f"(List.map (fun (nd_r : List Rat) => List.zipWith (fun (x_ y_ : Rat) => x_ {sym} y_) nd_r {b}) {a})", M
        if (ta, tb) == (V, M):
            return f"(List.map (fun (nd_r : List Rat) => List.zipWith (fun (x_ y_ : Rat) => x_ {sym} y_) {a} nd_r) {b})", M
        if ta == M and tb in (RAT, INT, NUM):
            c = f"({b} : Rat)" if tb == NUM else self.coerce(b, tb, RAT)
            return f"(List.map (fun (nd_r : List Rat) => List.map (fun (x_ : Rat) => x_ {sym} {c}) nd_r) {a})", M
        if tb == M and ta in (RAT, INT, NUM) and sym != "/":
            c = f"({a} : Rat)" if ta == NUM else self.coerce(a, ta, RAT)
            return f"(List.map (fun (nd_r : List Rat) => List.map (fun (x_ : Rat) => {c} {sym} x_) nd_r) {b})", M
        self.bad(e, f"`{sym}` of a {ta} and a {tb}")

    def nd2_stmt(self, s, rest):
        """`try: B  except E: H` with `opts["try_raises"] = {"<E>": name}`: the Bool parameter `name` says "B raises E"; the
        definition is `if name then H; rest else B; rest` — faithful when everything B assigns and the rest reads is assigned
        again by H (checked), so that nothing of an interrupted B can be seen.  `logging.<f>(..)` as a statement is skipped (no
        value depends on it).  `m[:, k] = v` on a 2-d array this function built itself (`Rpylib.Py.setCol`).
        None when `s` is none of these."""
        if isinstance(s, ast.Expr) and isinstance(s.value, ast.Call) and (_dotted(s.value.func) or "").startswith("logging."):
            return self.block(rest, [])
        if isinstance(s, ast.Try):
            tr = self.fn.opts.get("try_raises") or {}
            if s.orelse or s.finalbody or len(s.handlers) != 1:
                self.bad(s, "try statement with else / finally / several handlers")
            h = s.handlers[0]
            key = _norm_expr(h.type) if h.type is not None else ""
            if key not in tr or h.name is not None:
                self.bad(s, f"try / except {key or '<bare>'} (not declared in opts['try_raises'])")

            def assigned(stmts, top_only):
                """names bound under `stmts`; top_only: only by the plain assignments `x = e` that are statements of `stmts` itself"""
                out = set()
                for st in stmts:
                    for n in ([st] if top_only else ast.walk(st)):
                        tg = n.targets if isinstance(n, ast.Assign) else [n.target] \
                            if isinstance(n, (ast.AugAssign, ast.AnnAssign, ast.For, ast.comprehension)) else []
                        if top_only and not (isinstance(n, ast.Assign) and all(isinstance(t_, ast.Name) for t_ in tg)):
                            tg = []
                        for t_ in tg:
                            out |= {x.id for x in ast.walk(t_) if isinstance(x, ast.Name)}
                return out
            read_later = {x.id for st in rest for x in ast.walk(st) if isinstance(x, ast.Name) and isinstance(x.ctx, ast.Load)}
            leak = (assigned(s.body, False) & read_later) - assigned(h.body, True)
            if leak:
                self.bad(s, f"the try body assigns {sorted(leak)}, read afterwards and not re-assigned by the handler")
            nm = tr[key]
            self.add_param(nm, BOOL)
            saved, saved_flags = dict(self.env), dict(self.none_flag)
            ha = self.block(h.body, rest)
            self.env, self.none_flag = dict(saved), dict(saved_flags)
            bo = self.block(s.body, rest)
            self.env, self.none_flag = saved, saved_flags
            return f"if ({nm} = true) then\n{textwrap.indent(ha, '  ')}\nelse\n{textwrap.indent(bo, '  ')}"
        if isinstance(s, ast.Assign) and len(s.targets) == 1 and isinstance(s.targets[0], ast.Subscript) \
                and isinstance(s.targets[0].value, ast.Name) and self.env.get(s.targets[0].value.id) == self._MAT \
                and isinstance(s.targets[0].slice, ast.Tuple) and len(s.targets[0].slice.elts) == 2:
            tg = s.targets[0]
            r, c = tg.slice.elts
            if not (isinstance(r, ast.Slice) and r.lower is None and r.upper is None and r.step is None) or isinstance(c, ast.Slice):
                self.bad(s, "store into a 2-d array other than `m[:, k] = v`")
            name = tg.value.id
            # statements after the outermost loop around this store (or after the store itself) run when no store follows: an
            # alias made there (`obj.stats = res`) cannot see an intermediate state
            loops = [n for n in ast.walk(self.node) if isinstance(n, (ast.For, ast.While)) and n.lineno <= s.lineno <= n.end_lineno]
            horizon = max([n.end_lineno for n in loops] + [s.end_lineno])
            if any(isinstance(n, (ast.FunctionDef, ast.Lambda)) and n is not self.node for n in ast.walk(self.node)):
                self.bad(s, "store into a 2-d array in a function with nested functions")
            self.nd_require_owned(s, name, horizon=horizon)
            v = self.expr_as(s.value, self._VEC)
            new = f"(Rpylib.Py.setCol {lname(name)} {self.expr_as(c, INT)} {v})"
            body = self.block(rest, [])
            return f"let {lname(name)} : {self._MAT} := {new}\n{body}"
        return None

    # ---- PyLite 6 (C19): star arguments of tuple type, methods of the elements of a list of objects, 2-d stores ------------
    def star_args(self, e):
        """`f(.., *t, ..)` with `t` of a tuple type: the call with the components of `t` in its place.  Returns the rewritten
        call node and the `let` prefix that binds the tuple once (empty when there is no star argument)."""
        if not any(isinstance(x, ast.Starred) for x in e.args):
            return e, ""
        args, lets = [], ""
        for x in e.args:
            if not isinstance(x, ast.Starred):
                args.append(x)
                continue
            s, t = self.expr(x.value)
            if not t or is_list(t) or t.startswith("fn:") or "×" not in t:
                self.bad(e, f"star argument of type {t} (only a tuple is translated)")
            n = len(split_top(_strip_parens(t), "×"))
            nm = self.fresh("star")
            self.env[nm] = t
            lets += f"let {nm} : {t} := {s}; "
            for i in range(n):
                args.append(ast.copy_location(ast.Subscript(value=ast.Name(id=nm, ctx=ast.Load()), slice=ast.Constant(value=i),
                                                            ctx=ast.Load()), x))
        new = ast.copy_location(ast.Call(func=e.func, args=args, keywords=e.keywords), e)
        return ast.fix_missing_locations(new), lets

    def pylite6_call(self, e, fdot):
        """a declared opaque callable called with a star argument of tuple type (`self.model.mass(*interval_I(a))`), and a
        method call on an element of a declared list of objects (`opts["obj_lists"] = {"self.m.models": "n_models"}`,
        `opaque_fns["self.m.models[].mass"] = (name, [Int, ..], ret)`: the first argument is the element's position);
        None when `e` is neither"""
        f = e.func
        recv = None
        if isinstance(f, ast.Attribute) and isinstance(f.value, ast.Name) and f.value.id in self.obj_elem:
            key, recv = self.obj_elem[f.value.id] + "[]." + f.attr, lname(f.value.id)
            if key not in self.fn.opaque_fns:
                self.bad(e, f"the method {f.attr} of the elements of {self.obj_elem[f.value.id]} is not declared in the spec")
        elif fdot and fdot in self.fn.opaque_fns and any(isinstance(x, ast.Starred) for x in e.args):
            key = fdot
        else:
            return None
        if e.keywords:
            self.bad(e, "keyword arguments")
        e2, lets = self.star_args(e)
        nm, atys, rty = self.fn.opaque_fns[key]
        real = list(atys)[1:] if recv is not None else list(atys)
        if len(e2.args) != len(real):
            self.bad(e, f"call of {key} with {len(e2.args)} arguments")
        self.add_param(nm, " → ".join(list(atys) + [rty]))
        parts = ([recv] if recv is not None else []) + [self.expr_as(a_, want) for a_, want in zip(e2.args, real)]
        inner = "(" + " ".join([nm] + parts) + ")"
        return (f"({lets}{inner})" if lets else inner), rty

    def pylite6_stmt(self, s, rest):
        """`m[i, j] = v` on a 2-d float array (a list of rows) that this function built itself and that no other name can see
        (`m = np.diag(..)`; `nd_require_owned`): the in-place store is a rebinding of `m`.  Python raises IndexError for a
        position outside the array where `setAt` leaves it unchanged: the caller's domain.  None when `s` is not one."""
        if not (isinstance(s, ast.Assign) and len(s.targets) == 1 and isinstance(s.targets[0], ast.Subscript)):
            return None
        tg = s.targets[0]
        if not (isinstance(tg.value, ast.Name) and isinstance(tg.slice, ast.Tuple) and len(tg.slice.elts) == 2
                and self.env.get(tg.value.id) == "List (List Rat)"):
            return None
        name = lname(tg.value.id)
        self.nd_require_owned(s, tg.value.id)
        ix = []
        for x in tg.slice.elts:
            i_, it_ = self.expr(x)
            if it_ not in (INT, NUM):
                self.bad(s, f"store at an index of type {it_}")
            ix.append(i_ if it_ == INT else f"({i_} : Int)")
        v, vt = self.expr(s.value)
        if vt not in (INT, RAT, NUM):
            self.bad(s, f"store of a {vt} into a 2-d float array")
        val = f"({v} : Rat)" if vt == NUM else self.coerce(v, vt, RAT)
        body = self.block(rest, [])
        return (f"let {name} : List (List Rat) := (Rpylib.Py.setAt {name} {ix[0]} (Rpylib.Py.setAt (Rpylib.Py.idx {name} {ix[0]}) "
                f"{ix[1]} {val}))\n{body}")

    def ret_coerce(self, node, v, t):
        want = self.fn.ret
        if want is None:
            return v
        if "×" in want:
            return v
        if t == NUM:
            return f"({v} : {want})"
        if t == INT and want == RAT:
            return self.coerce(v, t, RAT)
        if t == BOOL and want in (INT, RAT):
            return f"(if {v} then 1 else 0)"
        return v


def _dotted(e):
    """'a.b.c' for a chain of attribute accesses on a name, else None"""
    parts = []
    while isinstance(e, ast.Attribute):
        parts.append(e.attr)
        e = e.value
    if isinstance(e, ast.Name):
        parts.append(e.id)
        return ".".join(reversed(parts))
    return None


def _stream_ty(t: str) -> str:
    """Lean type of a function type whose first argument is a stream tag (`@`)"""
    return t.replace("@", "List Int")


def _store_name(attr: str) -> str:
    return "self_" + attr.lstrip("_")


def _is_super_init(c) -> bool:
    """`super().__init__(..)` / `super(Class, obj).__init__(..)`"""
    return isinstance(c, ast.Call) and isinstance(c.func, ast.Attribute) and c.func.attr == "__init__" \
        and isinstance(c.func.value, ast.Call) and isinstance(c.func.value.func, ast.Name) and c.func.value.func.id == "super"


class _StoreRewriter(ast.NodeTransformer):
    """`self.<attr>` for the attributes declared in `stores` becomes the local name self_<attr> (load and store alike)"""

    def __init__(self, stores):
        self.stores = stores

    def visit_Attribute(self, n):
        self.generic_visit(n)
        if isinstance(n.value, ast.Name) and n.value.id == "self" and n.attr in self.stores:
            return ast.copy_location(ast.Name(id=_store_name(n.attr), ctx=n.ctx), n)
        return n


def _select_block(unit, fn, node):
    """the consecutive statements of `node` from the one starting with fn.block[0] to the one starting with fn.block[1]"""
    first, last = (x.replace(" ", "") for x in fn.block[:2])
    occ = fn.block[2] if len(fn.block) > 2 else 0
    lists = []

    def visit(n):
        for fld in ("body", "orelse", "finalbody"):
            sub = getattr(n, fld, None)
            if isinstance(sub, list) and sub and isinstance(sub[0], ast.stmt):
                lists.append(sub)
                for x in sub:
                    visit(x)
    visit(node)
    hits = []
    for sub in lists:
        for i, st in enumerate(sub):
            if ast.unparse(st).replace(" ", "").startswith(first):
                hits.append((st.lineno, i, sub))
    hits.sort(key=lambda h: h[0])
    if occ >= len(hits):
        raise Untranslatable(f"{unit.path}:{node.lineno}: {fn.qualname}: no statement starting with {fn.block[0]!r} (occurrence {occ})")
    _, i, sub = hits[occ]
    for j in range(i, len(sub)):
        if ast.unparse(sub[j]).replace(" ", "").startswith(last):
            return sub[i:j + 1]
    raise Untranslatable(f"{unit.path}:{sub[i].lineno}: {fn.qualname}: no statement starting with {fn.block[1]!r} after {fn.block[0]!r}")


def _norm_expr(e) -> str:
    try:
        return ast.unparse(e).replace(" ", "").replace("numpy.", "np.").replace("+np.inf", "np.inf")
    except Exception:
        return ""


def _norm_call(e: ast.Call) -> str:
    """normalised text of a call: `self.nu.integrate_against_x(-1, +1)` -> 'self.nu.integrate_against_x(-1, 1)'"""
    try:
        txt = ast.unparse(e)
    except Exception:
        return ""
    return txt.replace("+", "").replace(" ", "").replace("numpy.", "np.")


def _find(tree: ast.Module, qualname: str):
    parts = qualname.split("#")[0].split(".")          # `name#tag`: several views (Fn.block) of the same function
    body, cls = tree.body, None
    if len(parts) == 2:
        for n in tree.body:
            if isinstance(n, ast.ClassDef) and n.name == parts[0]:
                body, cls = n.body, n.name
                break
        else:
            return None, None
    if "@" in parts[-1]:
        # `Class.method@Type`: the implementation registered with `@method.register` for the first parameter annotated `Type`
        base, ann = parts[-1].split("@", 1)
        for n in body:
            if isinstance(n, ast.FunctionDef) and any(_dotted(d) == base + ".register" for d in n.decorator_list):
                ps = [p for p in n.args.args if p.arg not in ("self", "cls")]
                if ps and ps[0].annotation is not None and ast.unparse(ps[0].annotation).replace(" ", "") == ann.replace(" ", ""):
                    return n, cls
        return None, None
    for n in body:
        if isinstance(n, ast.FunctionDef) and n.name == parts[-1]:
            return n, cls
    return None, None


_ANN = {"int": INT, "float": RAT, "bool": BOOL, "Real": RAT}
_sig_cache: dict = {}


def _signature(unit: Unit, fn: Fn):
    """python parameters (name, type) of fn, its return type, and the extra (self-attribute) parameters its body needs"""
    key = (id(unit), fn.qualname)
    if key in _sig_cache:
        return _sig_cache[key]
    node, cls = _find(unit.tree, fn.qualname)
    if node is None:
        raise Untranslatable(f"{unit.path}: function {fn.qualname} not found")
    if fn.stores:
        import copy as _copy
        node = ast.fix_missing_locations(_StoreRewriter(fn.stores).visit(_copy.deepcopy(node)))
    a = node.args
    if (a.vararg or a.kwarg or a.kwonlyargs or a.posonlyargs) and not fn.block:
        raise Untranslatable(f"{unit.path}:{node.lineno}: {fn.qualname}: star / keyword-only parameters")
    params = []
    stmts, lines = node.body, (node.lineno, node.end_lineno)
    if fn.block:
        # a view of a sub-block: its inputs are the declared parameters, its value is `result`
        stmts = _select_block(unit, fn, node)
        lines = (stmts[0].lineno, stmts[-1].end_lineno)
        if not (fn.result or fn.ctor or fn.stores) or (fn.ret is None and not fn.stores):   # (C14) `stores` alone: their final values
            raise Untranslatable(f"{unit.path}:{node.lineno}: {fn.qualname}: a block view needs `result` and `ret`")
        if fn.result:       # (C10) a view that ends with the constructor call `super().__init__(kw=..)` (`ctor`) has its value already
            stmts = list(stmts) + [ast.copy_location(ast.Return(value=ast.parse(fn.result, mode="eval").body), stmts[-1])]
            ast.fix_missing_locations(stmts[-1])
        params = [(n_, t_) for n_, t_ in fn.params.items()]
    for p in ([] if fn.block else a.args):
        if p.arg in ("self", "cls"):
            continue
        ty = fn.params.get(p.arg)
        if ty is None and p.annotation is not None and isinstance(p.annotation, ast.Name):
            ty = _ANN.get(p.annotation.id)
        if ty is None:
            raise Untranslatable(f"{unit.path}:{node.lineno}: {fn.qualname}: parameter {p.arg} has no declared type")
        params.append((p.arg, ty))
    names_ = [p.arg for p in a.args]
    defaults = dict(zip(names_[len(names_) - len(a.defaults):], a.defaults))
    ret = fn.ret
    if ret is None and fn.stores:
        ret = " × ".join(atom(t_) for t_ in fn.stores.values())
    if ret is None and isinstance(node.returns, ast.Name):
        ret = _ANN.get(node.returns.id)
    if ret is None:
        raise Untranslatable(f"{unit.path}:{node.lineno}: {fn.qualname}: return type not declared")
    if fn.block:
        defaults = {}
    sig = {"py_params": params, "ret": ret, "extra": [], "node": node, "cls": cls, "defaults": defaults, "lines": lines}
    _sig_cache[key] = sig
    # translate the body once to discover the extra parameters (self attributes, enum tests)
    tr = _Tr(unit, fn, node, cls)
    tr.env = {n: (t[4:] if t.startswith("opt:") else t) for n, t in params}
    tr.none_flag = {n: lname(n) + "_none" for n, t in params if t.startswith("opt:")}
    for a_, t_ in fn.stores.items():                # mutable attributes: state variables, their values on entry are parameters
        tr.env[_store_name(a_)] = t_
        tr.add_param(_store_name(a_), t_)
    saved_ret = fn.ret
    fn.ret = ret
    try:
        body = tr.block(stmts, [])
    finally:
        fn.ret = saved_ret
    if fn.opts.get("fixed_binders"):
        # (C10) every collaborator the spec declares is a binder whether or not the current text reads it: a rewrite that adds or
        # drops a read of a declared attribute / function does not change the signature the obligations are stated against
        for a_, t_ in fn.self_attrs.items():
            tr.add_param("self_" + a_.replace("._", "_").replace(".", "_").lstrip("_"), t_)
        for nm_, t_ in list(fn.const_calls.values()) + list(fn.const_exprs.values()):
            tr.add_param(nm_, t_)
        for nm_, atys_, rty_ in fn.opaque_fns.values():
            tr.add_param(nm_, _stream_ty(" → ".join(list(atys_) + [rty_])))
        for k_, nm_ in fn.fn_params.items():
            tr.add_param(nm_, "Rat → Rat → Rat" if k_ == "**" else "Rat → Rat")
    order = [_store_name(a_) for a_ in fn.stores] + ["self_" + a.replace("._", "_").replace(".", "_").lstrip("_") for a in fn.self_attrs] \
        + [nm for nm, _ in fn.const_calls.values()] + [nm for nm, _ in fn.const_exprs.values()] \
        + [nm for nm, _, _ in fn.opaque_fns.values()] + list(fn.fn_params.values())
    sig["extra"] = sorted(tr.extra_params, key=lambda nt: (order.index(nt[0]) if nt[0] in order else len(order), nt[0]))
    import re as _re

    def _fill(m):
        over = dict(kv.split("=") for kv in m.group(1).split("|") if kv)
        txt = " ".join(over.get(n, n) for n, _ in sig["extra"])
        return (" " + txt) if txt else ""
    body = _re.sub(r" ?⟪EXTRA((?:\|[^⟫|]+)*)⟫", _fill, body)
    sig["body"] = body
    sig["recursive"] = tr.recursive
    return sig


def _binder(n, t):
    if t.startswith("fn:"):
        return f"({lname(n)} : {t[3:]})"
    if t.startswith("opt:"):
        return f"({lname(n)} : {t[4:]}) ({lname(n)}_none : Bool)"
    return f"({lname(n)} : {t})"


def _module_consts(unit: Unit) -> list[str]:
    """`def NAME : T := <expr>` for the module-level constants listed in `unit.consts`, translated from the single module-level
    assignment `NAME = <expr>` (a closed arithmetic expression); failures are recorded in `unit.const_bad` and make the
    functions that read the constant untranslatable"""
    out = []
    unit.const_bad = {}
    for cn, cty in (getattr(unit, "consts", None) or {}).items():
        hits = [n for n in unit.tree.body if (isinstance(n, ast.Assign) and len(n.targets) == 1 and isinstance(n.targets[0], ast.Name)
                                               and n.targets[0].id == cn)
                or (isinstance(n, ast.AnnAssign) and isinstance(n.target, ast.Name) and n.target.id == cn and n.value is not None)]
        rebound = [n for n in ast.walk(unit.tree) if isinstance(n, ast.Global) and cn in n.names]
        if len(hits) != 1 or rebound:
            unit.const_bad[cn] = f"{unit.path}: expected exactly one module-level assignment of {cn}"
            continue
        try:
            tr = _Tr(unit, Fn("<module>"), hits[0], None)
            val = tr.expr_as(hits[0].value, cty)
            if tr.extra_params:
                raise Untranslatable(f"{unit.path}:{hits[0].lineno}: the value of {cn} is not a closed expression")
        except Untranslatable as e:
            unit.const_bad[cn] = str(e)
            continue
        out.append(f"/-- {unit.path}:{hits[0].lineno} module constant `{cn}` (translated from the source by harness/py2lean.py) -/\n"
                   f"def {lname(cn)} : {cty} := {val}\n")
    return out


def translate_unit(repo_root, unit: Unit, namespace: str):
    """Return (lean_text_of_definitions, report).  report[qualname] = "ok" | reason why it is untranslatable."""
    import pathlib
    src = (pathlib.Path(repo_root) / unit.path).read_text()
    unit.tree = ast.parse(src)
    _sig_cache.clear()
    out, report = [], {}
    out += _module_consts(unit)
    for q, fn in unit.fns.items():
        try:
            sig = _signature(unit, fn)
        except Untranslatable as e:
            report[q] = str(e)
            continue
        except RecursionError:
            report[q] = f"{unit.path}: {q}: translator recursion limit"
            continue
        node = sig["node"]
        binders = " ".join(_binder(n, t) for n, t in sig["py_params"] if t != "obj")
        extra = " ".join(f"({n} : {t})" for n, t in sig["extra"])
        binders = (binders + " " + extra).strip()
        l0, l1 = sig.get("lines", (node.lineno, node.end_lineno))
        what = f"`{q}`" + (f", the statements from `{fn.block[0]}` to `{fn.block[1]}`, value `{fn.result}`" if fn.block else "") \
            + (f"; result = the final values of self.{', self.'.join(fn.stores)}" if fn.stores else "") \
            + (f"; result = the arguments {', '.join(fn.ctor)} of the constructor call" if fn.ctor else "") \
            + ("".join(f"; SPECIALISED to the case `{k_}` is {v_}" for k_, v_ in fn.opts.get("static_tests", {}).items()))
        doc = f"/-- {unit.path}:{l0}-{l1} {what} (translated from the source by harness/py2lean.py) -/"
        body = textwrap.indent(sig["body"], "  ")
        if sig["recursive"]:
            if fn.fuel is None or fn.err is None:
                report[q] = f"{unit.path}:{node.lineno}: {q}: recursive function without `fuel` and `err` in the spec"
                continue
            inner = textwrap.indent(sig["body"], "    ")
            out.append(f"{doc}\ndef {fn.lean_name}_fuel (fuel : Nat) {binders} : {sig['ret']} :=\n  match fuel with\n"
                       f"  | 0 => {fn.err}\n  | fuel + 1 =>\n{inner}\n")
            names = " ".join([lname(n) + (f" {lname(n)}_none" if t.startswith("opt:") else "")
                              for n, t in sig["py_params"] if t != "obj"] + [n for n, _ in sig["extra"]])
            out.append(f"def {fn.lean_name} {binders} : {sig['ret']} := {fn.lean_name}_fuel ({fn.fuel}) {names}\n")
        else:
            out.append(f"{doc}\ndef {fn.lean_name} {binders} : {sig['ret']} :=\n{body}\n")
        report[q] = "ok"
    # callers of an untranslatable function are untranslatable too (their text mentions a missing definition)
    changed = True
    while changed:
        changed = False
        for q, fn in unit.fns.items():
            if report.get(q) != "ok":
                continue
            text = next((o for o in out if f"def {fn.lean_name} " in o or f"def {fn.lean_name}_fuel " in o), "")
            for q2, fn2 in unit.fns.items():
                if report.get(q2) not in (None, "ok") and q2 != q and (f"({fn2.lean_name} " in text or f"({fn2.lean_name}_fuel " in text):
                    report[q] = f"calls {q2}, which is untranslatable: {report[q2]}"
                    out = [o for o in out if not (f"def {fn.lean_name} " in o or f"def {fn.lean_name}_fuel " in o)]
                    changed = True
                    break
    return "\n".join(out), report
