"""py2lean — a translator from a small pure subset of Python ("PyLite") to Lean 4 definitions.

Purpose (DESIGN.md §9): besides the behavioural correspondence, a part of the model is *regenerated from /repo's source on
every run*: the functions listed in harness/srctie.py are parsed with `ast` from the current working tree, translated to Lean
definitions over `Int` (Python `int`, unbounded) and `Rat` (Python `float`, read as the exact real number it denotes, the
same convention as the hand-written model), written to lean/RpylibModel/Generated/Src<prop>.lean, and the theorems of
lean/RpylibModel/ProofsGen/Src<prop>.lean — property statements about *those generated definitions*, and their equality with
the hand-written model — are re-checked by `lake build`.

The subset
  statements   : `x = e`, `a, b = e1, e2`, `q, r = divmod(a, b)`, `a, b = f(..)`, `x += e` (and -=, *=), `if/elif/else`,
                 `return e`, `return e1, e2`, `pass`, docstrings, `raise` (the branch becomes the function's error value,
                 see `err`), `assert` is ignored.  No loops, no comprehensions, no attribute stores.
  expressions  : integer / float / bool literals, names, `self.attr` (becomes a parameter `self_attr`), + - * / // % **,
                 unary - and not, comparisons (chains), and/or, `a if c else b`, tuples, subscripts with literal index of a
                 tuple-typed name, calls of: isqrt, abs, max, min (2 arguments), pow(x, n), divmod, int (of an int), float,
                 np.maximum, np.minimum, np.abs, other functions of the same translation unit (by bare name, `Class.method`
                 or `self.method`), and enum member tests `self.attr == Enum.MEMBER` / `in (Enum.A, Enum.B)` (become Bool
                 parameters `self_attr_is_MEMBER`).
  recursion    : a function that calls itself is translated with a fuel argument (`partial` would hide it from proofs);
                 the fuel-free wrapper starts with the fuel given in the spec.
Anything else raises `Untranslatable` with the source position: the source tie of that function is then *unavailable* (the
behavioural correspondence remains), never silently approximated.

Semantics chosen (each is stated in the generated file's header):
  `//`, `%`   -> Int.fdiv / Int.fmod (floor division, sign of the divisor: Python's)      [Int only]
  `/`         -> Rat division (Python raises ZeroDivisionError where Lean's Rat gives 0: the domain is the caller's)
  `**`        -> `^` with a Nat exponent: literal, or `Int.toNat` of an Int expression (Python returns a float for a negative
                 exponent: outside the subset's domain)
  isqrt       -> Nat.sqrt of `Int.toNat` (Python raises for negative arguments)
  float ops   -> exact rational arithmetic (rounding is not modelled; same convention as the hand-written model)
"""
from __future__ import annotations

import ast
import textwrap
from fractions import Fraction


class Untranslatable(Exception):
    pass


INT, RAT, BOOL, NUM = "Int", "Rat", "Bool", "num"      # NUM: a numeric literal, elaborated by Lean from its context

LEAN_KEYWORDS = {"at", "from", "have", "show", "fun", "end", "open", "in", "let", "do", "then", "else", "if", "match",
                 "with", "by", "where", "local", "instance", "def", "theorem", "max", "min", "abs", "prefix", "infix",
                 "notation", "namespace", "section", "variable", "universe", "export", "import", "mutual", "structure",
                 "class", "inductive", "deriving", "macro", "syntax", "λ", "Type", "Prop", "Sort", "omega", "pi"}


def lname(n: str) -> str:
    n = n.lstrip("_") or "u"
    return n + "'" if n in LEAN_KEYWORDS else n


class Fn:
    """one function to translate: where it is, how its parameters are typed"""

    def __init__(self, qualname, params=None, ret=None, self_attrs=None, enum_attrs=None, fuel=None, lean_name=None,
                 err=None, consts=None, fn_params=None, const_calls=None, opaque_fns=None, const_exprs=None, opaque_index=None):
        self.qualname = qualname                  # "Class.method" or "function"
        self.params = params or {}                # python parameter name -> "Int" | "Rat" | "Bool" (overrides annotations)
        self.ret = ret                            # Lean return type, e.g. "Int", "Rat", "Int × Int"
        self.self_attrs = self_attrs or {}        # attribute name -> Lean type; becomes a parameter self_<attr>
        self.enum_attrs = enum_attrs or {}        # attribute name -> enum class name (tests become Bool parameters)
        self.fuel = fuel                          # Lean expression (in the parameters) bounding the recursion depth
        self.lean_name = lean_name or qualname.replace(".", "_").replace("__", "_").lstrip("_")
        self.err = err                            # Lean term returned where the Python code raises (None: raise is untranslatable)
        self.consts = consts or {}                # module-level / class-level constant names -> (Lean term, type)
        self.fn_params = fn_params or {}          # python callable name (e.g. "np.exp") -> Lean parameter name of type Rat → Rat
        self.const_calls = const_calls or {}      # normalised text of a call expression -> (Lean parameter name, type)
        self.opaque_fns = opaque_fns or {}        # python callable (e.g. "self._theta") -> (Lean parameter name, [arg types], ret type)
        self.const_exprs = const_exprs or {}      # normalised text of any expression (e.g. "a==-np.inf") -> (Lean parameter name, type)
        self.opaque_index = opaque_index or {}    # name of an object parameter -> (Lean function parameter, index type, value type): obj[i]
        # parameter types: "Int" | "Rat" | "Bool", "obj" (an object only used through the opaque_* / const_* tables: no binder),
        # "fn:<Lean function type>" (a callable parameter, e.g. "fn:Rat → Rat → Rat")


class Unit:
    """translation unit: the functions of one Python file"""

    def __init__(self, path, fns):
        self.path = path
        self.fns = {f.qualname: f for f in fns}


class _Tr(ast.NodeVisitor):
    def __init__(self, unit: Unit, fn: Fn, node: ast.FunctionDef, cls: str | None):
        self.unit, self.fn, self.node, self.cls = unit, fn, node, cls
        self.env: dict[str, str] = {}             # local name -> type
        self.extra_params: list[tuple[str, str]] = []   # (lean name, type) discovered in the body (self attrs, enum tests)
        self.recursive = False
        self.tmp = 0
        self.alias: dict[str, str] = {}           # local name -> dotted object path it stands for (e.g. params -> self.parameters)

    # ---- helpers -------------------------------------------------------------------------------------------------
    def bad(self, node, why):
        raise Untranslatable(f"{self.unit.path}:{getattr(node, 'lineno', '?')}: {self.fn.qualname}: {why}")

    def add_param(self, name, ty):
        if (name, ty) not in self.extra_params:
            self.extra_params.append((name, ty))

    def fresh(self, base="t"):
        self.tmp += 1
        return f"{base}_{self.tmp}"

    def coerce(self, s, ty, want):
        if ty == want or ty == NUM or want is None:
            return s
        if ty == INT and want == RAT:
            return f"(({s} : Int) : Rat)"
        if ty == BOOL and want in (INT, RAT, NUM):
            return f"(if {s} then 1 else 0)"
        return s

    def join_num(self, node, a, ta, b, tb):
        """common numeric type of two operands, with the coerced operand strings"""
        if ta == BOOL:
            a, ta = f"(if {a} then 1 else 0)", NUM
        if tb == BOOL:
            b, tb = f"(if {b} then 1 else 0)", NUM
        if ta == tb:
            return a, b, ta
        if ta == NUM:
            return a, b, tb
        if tb == NUM:
            return a, b, ta
        if {ta, tb} == {INT, RAT}:
            return self.coerce(a, ta, RAT), self.coerce(b, tb, RAT), RAT
        self.bad(node, f"operands of types {ta} and {tb}")

    # ---- expressions: return (lean string, type) -----------------------------------------------------------------
    def expr(self, e) -> tuple[str, str]:
        if self.fn.const_exprs:
            key = _norm_expr(e)
            if key in self.fn.const_exprs:
                nm, ty = self.fn.const_exprs[key]
                self.add_param(nm, ty)
                return nm, ty
        if isinstance(e, ast.Constant):
            v = e.value
            if isinstance(v, bool):
                return ("true" if v else "false"), BOOL
            if isinstance(v, int):
                return (str(v) if v >= 0 else f"({v})"), NUM
            if isinstance(v, float):
                fr = Fraction(v)
                if fr.denominator == 1:
                    return f"({fr.numerator} : Rat)", RAT
                return f"(({fr.numerator} : Rat) / {fr.denominator})", RAT
            self.bad(e, f"constant {v!r}")
        if isinstance(e, ast.Name):
            if e.id in self.env:
                return lname(e.id), self.env[e.id]
            if e.id in self.fn.consts:
                return self.fn.consts[e.id]
            self.bad(e, f"free name {e.id}")
        if isinstance(e, ast.Attribute):
            dotted = _dotted(e)
            if dotted and dotted.split(".")[0] in self.alias:
                root, _, rest = dotted.partition(".")
                dotted = self.alias[root] + "." + rest
            if dotted and dotted in self.fn.consts:
                return self.fn.consts[dotted]
            if dotted and dotted.startswith("self.") and dotted[5:] in self.fn.self_attrs and "." in dotted[5:]:
                ty = self.fn.self_attrs[dotted[5:]]
                nm = "self_" + dotted[5:].replace("._", "_").replace(".", "_").lstrip("_")
                self.add_param(nm, ty)
                return nm, ty
            if isinstance(e.value, ast.Name) and e.value.id == "self":
                if e.attr in self.fn.self_attrs:
                    ty = self.fn.self_attrs[e.attr]
                    nm = "self_" + e.attr.lstrip("_")
                    self.add_param(nm, ty)
                    return nm, ty
                self.bad(e, f"self.{e.attr} is not declared in the spec")
            if isinstance(e.value, ast.Name) and e.value.id in ("np", "numpy", "math") and e.attr == "inf":
                self.bad(e, "infinity")
            self.bad(e, "attribute access")
        if isinstance(e, ast.UnaryOp):
            s, t = self.expr(e.operand)
            if isinstance(e.op, ast.USub):
                if t == BOOL:
                    self.bad(e, "minus of a bool")
                return f"(-{s})", t
            if isinstance(e.op, ast.Not):
                return f"(!{self.as_bool(e.operand)})", BOOL
            if isinstance(e.op, ast.UAdd):
                return s, t
            self.bad(e, "unary operator")
        if isinstance(e, ast.BinOp):
            a, ta = self.expr(e.left)
            b, tb = self.expr(e.right)
            op = e.op
            if isinstance(op, ast.Pow):
                if isinstance(e.right, ast.Constant) and isinstance(e.right.value, int) and e.right.value >= 0:
                    return f"({a} ^ ({e.right.value} : Nat))", (INT if ta == NUM else ta)
                if tb in (INT,) and ta in (INT, NUM):
                    base = a if ta == INT else f"({a} : Int)"
                    return f"({base} ^ (Int.toNat {b}))", INT
                self.bad(e, "power with a non-integer exponent")
            if isinstance(op, ast.FloorDiv) or isinstance(op, ast.Mod):
                if RAT in (ta, tb):
                    self.bad(e, "floor division / modulo of floats")
                a2 = a if ta != NUM else f"({a} : Int)"
                f = "Int.fdiv" if isinstance(op, ast.FloorDiv) else "Int.fmod"
                return f"({f} {a2} {b})", INT
            if isinstance(op, ast.Div):
                a2 = self.coerce(a, ta, RAT) if ta != NUM else f"({a} : Rat)"
                b2 = self.coerce(b, tb, RAT) if tb != NUM else f"({b} : Rat)"
                return f"({a2} / {b2})", RAT
            sym = {ast.Add: "+", ast.Sub: "-", ast.Mult: "*"}.get(type(op))
            if sym is None:
                self.bad(e, f"operator {type(op).__name__}")
            a, b, t = self.join_num(e, a, ta, b, tb)
            return f"({a} {sym} {b})", t
        if isinstance(e, ast.Compare) or isinstance(e, ast.BoolOp):
            return f"(decide {self.prop(e)})", BOOL
        if isinstance(e, ast.IfExp):
            c = self.prop(e.test)
            a, ta = self.expr(e.body)
            b, tb = self.expr(e.orelse)
            if ta == BOOL and tb == BOOL:
                return f"(if {c} then {a} else {b})", BOOL
            a, b, t = self.join_num(e, a, ta, b, tb)
            if t == NUM:
                t = INT
                a = f"({a} : Int)"
            return f"(if {c} then {a} else {b})", t
        if isinstance(e, ast.Tuple):
            parts = [self.expr(x) for x in e.elts]
            parts = [(f"({s} : Int)" if t == NUM else s, INT if t == NUM else t) for s, t in parts]
            return "(" + ", ".join(s for s, _ in parts) + ")", " × ".join(t for _, t in parts)
        if isinstance(e, ast.Subscript):
            if isinstance(e.value, ast.Name) and e.value.id in self.fn.opaque_index:
                nm, ity, vty = self.fn.opaque_index[e.value.id]
                self.add_param(nm, f"{ity} → {vty}")
                si, ti = self.expr(e.slice)
                return f"({nm} {self.coerce(si, ti, ity) if ti != NUM else '(' + si + ' : ' + ity + ')'})", vty
            if isinstance(e.value, ast.Name) and e.value.id in self.env and "×" in self.env[e.value.id] \
                    and isinstance(e.slice, ast.Constant) and isinstance(e.slice.value, int):
                tys = [t.strip() for t in self.env[e.value.id].split("×")]
                i = e.slice.value
                if i < 0:
                    i += len(tys)
                if not 0 <= i < len(tys):
                    self.bad(e, "tuple index out of range")
                return self.proj(lname(e.value.id), i, len(tys)), tys[i]
            self.bad(e, "subscript")
        if isinstance(e, ast.Call):
            return self.call(e)
        self.bad(e, f"expression {type(e).__name__}")

    @staticmethod
    def proj(s, i, n):
        # right-nested products: (a, b, c) = (a, (b, c))
        out = s
        for _ in range(i):
            out = f"{out}.2"
        return f"{out}.1" if i < n - 1 else out

    def call(self, e: ast.Call):
        key = _norm_call(e)
        if key in self.fn.const_calls:
            nm, ty = self.fn.const_calls[key]
            self.add_param(nm, ty)
            return nm, ty
        if e.keywords:
            self.bad(e, "keyword arguments")
        f = e.func
        fdot = _dotted(f)
        if fdot in self.fn.fn_params and len(e.args) == 1:
            nm = self.fn.fn_params[fdot]
            self.add_param(nm, "Rat → Rat")
            s, t = self.expr(e.args[0])
            return f"({nm} {self.coerce(s, t, RAT) if t != NUM else '(' + s + ' : Rat)'})", RAT
        if isinstance(f, ast.Name) and self.env.get(f.id, "").startswith("fn:"):
            tys = [t.strip() for t in self.env[f.id][3:].split("→")]
            atys, rty = tys[:-1], tys[-1]
            if len(e.args) != len(atys):
                self.bad(e, f"call of {f.id} with {len(e.args)} arguments")
            parts = []
            for a, want in zip(e.args, atys):
                s_, t_ = self.expr(a)
                parts.append(self.coerce(s_, t_, want) if t_ != NUM else f"({s_} : {want})")
            return "(" + " ".join([lname(f.id)] + parts) + ")", rty
        if fdot in self.fn.opaque_fns:
            nm, atys, rty = self.fn.opaque_fns[fdot]
            if len(e.args) != len(atys):
                self.bad(e, f"call of {fdot} with {len(e.args)} arguments")
            self.add_param(nm, " → ".join(list(atys) + [rty]))
            parts = []
            for a, want in zip(e.args, atys):
                s, t = self.expr(a)
                parts.append(self.coerce(s, t, want) if t != NUM else f"({s} : {want})")
            return "(" + " ".join([nm] + parts) + ")", rty
        name = None
        if isinstance(f, ast.Name):
            name = f.id
        elif isinstance(f, ast.Attribute) and isinstance(f.value, ast.Name):
            if f.value.id in ("np", "numpy", "math"):
                name = f.value.id + "." + f.attr
            elif f.value.id == "self":
                name = (self.cls + "." if self.cls else "") + f.attr
            else:
                name = f.value.id + "." + f.attr
        if name is None:
            self.bad(e, "call of a computed function")
        args = [self.expr(a) for a in e.args]
        if name in ("isqrt", "math.isqrt") and len(args) == 1:
            s, t = args[0]
            if t == RAT:
                self.bad(e, "isqrt of a float")
            return f"(Rpylib.Py.isqrt {s})", INT
        if name in ("abs", "np.abs", "numpy.abs", "math.fabs") and len(args) == 1:
            s, t = args[0]
            if t == RAT:
                return f"(Rpylib.Py.rabs {s})", RAT
            return f"(Rpylib.Py.iabs {s})", INT
        if name in ("max", "min", "np.maximum", "np.minimum", "numpy.maximum", "numpy.minimum") and len(args) == 2:
            a, b, t = self.join_num(e, args[0][0], args[0][1], args[1][0], args[1][1])
            if t == NUM:
                t, a = INT, f"({a} : Int)"
            which = "max" if "max" in name else "min"
            fn = {(RAT, "max"): "Rpylib.Py.rmax", (RAT, "min"): "Rpylib.Py.rmin",
                  (INT, "max"): "Rpylib.Py.imax", (INT, "min"): "Rpylib.Py.imin"}.get((t, which))
            if fn is None:
                self.bad(e, f"{which} of {t}")
            return f"({fn} {a} {b})", t
        if name == "pow" and len(args) == 2 and isinstance(e.args[1], ast.Constant) and isinstance(e.args[1].value, int) \
                and e.args[1].value >= 0:
            s, t = args[0]
            return f"({s} ^ ({e.args[1].value} : Nat))", (INT if t == NUM else t)
        if name == "int" and len(args) == 1 and args[0][1] in (INT, NUM):
            return args[0][0], INT
        if name == "float" and len(args) == 1:
            s, t = args[0]
            return (self.coerce(s, t, RAT) if t != NUM else f"({s} : Rat)"), RAT
        if name == "divmod" and len(args) == 2:
            (a, ta), (b, tb) = args
            if RAT in (ta, tb):
                self.bad(e, "divmod of floats")
            a2 = a if ta != NUM else f"({a} : Int)"
            return f"(Int.fdiv {a2} {b}, Int.fmod {a2} {b})", "Int × Int"
        # a function of the same translation unit
        for cand in (name, (self.cls + "." + name) if self.cls and "." not in name else None):
            if cand and cand in self.unit.fns:
                callee = self.unit.fns[cand]
                sig = _signature(self.unit, callee)
                if len(args) != len(sig["py_params"]):
                    self.bad(e, f"call of {cand} with {len(args)} arguments")
                parts = [self.coerce(s, t, want) if t != NUM else f"({s} : {want})"
                         for (s, t), (_, want) in zip(args, sig["py_params"])]
                # the callee's self-attribute / enum parameters are passed through (must be declared for the caller too)
                for nm, ty in sig["extra"]:
                    self.add_param(nm, ty)
                    parts.append(nm)
                if cand == self.fn.qualname:
                    self.recursive = True
                    # the extra parameters of the function being translated are only known at the end: placeholder, filled
                    # in by `_signature`.  A flag that describes one python parameter (e.g. `a==-np.inf`) is passed on only
                    # when that parameter is passed on unchanged; a different (Rat-valued, hence finite) argument makes it false.
                    over = {}
                    for key, (nm, ty) in self.fn.const_exprs.items():
                        for (pn, _), arg in zip(sig["py_params"], e.args):
                            if pn in key and not (isinstance(arg, ast.Name) and arg.id == pn) and ty == BOOL:
                                over[nm] = "false"
                    tag = "⟪EXTRA" + "".join(f"|{k}={v}" for k, v in sorted(over.items())) + "⟫"
                    return "(" + " ".join([callee.lean_name + "_fuel", "fuel"] + parts + [tag]) + ")", sig["ret"]
                head = callee.lean_name
                return "(" + " ".join([head] + parts) + ")", sig["ret"]
        self.bad(e, f"call of {name}")

    # ---- conditions: return a Lean Prop string -------------------------------------------------------------------
    def as_bool(self, e) -> str:
        s, t = self.expr(e)
        if t == BOOL:
            return s
        self.bad(e, f"truth value of a {t}")

    def enum_test(self, e):
        """self.attr == Enum.MEMBER / self.attr in (Enum.A, Enum.B) / not in  ->  Bool parameters"""
        if not (isinstance(e, ast.Compare) and len(e.ops) == 1):
            return None
        l, op, r = e.left, e.ops[0], e.comparators[0]
        if not (isinstance(l, ast.Attribute) and isinstance(l.value, ast.Name) and l.value.id == "self"
                and l.attr in self.fn.enum_attrs):
            return None
        enum = self.fn.enum_attrs[l.attr]

        def member(x):
            if isinstance(x, ast.Attribute) and isinstance(x.value, ast.Name) and x.value.id == enum:
                nm = f"self_{l.attr.lstrip('_')}_is_{x.attr}"
                self.add_param(nm, BOOL)
                return nm
            self.bad(x, f"expected a member of {enum}")
        if isinstance(op, (ast.Eq, ast.Is)):
            return f"({member(r)} = true)"
        if isinstance(op, (ast.NotEq, ast.IsNot)):
            return f"(¬ {member(r)} = true)"
        if isinstance(op, (ast.In, ast.NotIn)) and isinstance(r, (ast.Tuple, ast.List, ast.Set)):
            body = " ∨ ".join(f"{member(x)} = true" for x in r.elts)
            return f"({body})" if isinstance(op, ast.In) else f"(¬ ({body}))"
        return None

    def prop(self, e) -> str:
        if self.fn.const_exprs and _norm_expr(e) in self.fn.const_exprs:
            nm, ty = self.fn.const_exprs[_norm_expr(e)]
            self.add_param(nm, ty)
            return f"({nm} = true)" if ty == BOOL else f"({nm} ≠ 0)"
        et = self.enum_test(e)
        if et is not None:
            return et
        if isinstance(e, ast.Compare):
            parts = []
            left = e.left
            for op, right in zip(e.ops, e.comparators):
                a, ta = self.expr(left)
                b, tb = self.expr(right)
                sym = {ast.Lt: "<", ast.LtE: "≤", ast.Gt: ">", ast.GtE: "≥", ast.Eq: "=", ast.NotEq: "≠"}.get(type(op))
                if sym is None:
                    self.bad(e, f"comparison {type(op).__name__}")
                if ta == BOOL and tb == BOOL:
                    pass
                else:
                    a, b, t = self.join_num(e, a, ta, b, tb)
                    if t == NUM:
                        a = f"({a} : Int)"
                parts.append(f"{a} {sym} {b}")
                left = right
            return "(" + " ∧ ".join(parts) + ")"
        if isinstance(e, ast.BoolOp):
            sym = " ∧ " if isinstance(e.op, ast.And) else " ∨ "
            return "(" + sym.join(self.prop(v) for v in e.values) + ")"
        if isinstance(e, ast.UnaryOp) and isinstance(e.op, ast.Not):
            return f"(¬ {self.prop(e.operand)})"
        s, t = self.expr(e)
        if t == BOOL:
            return f"({s} = true)"
        if t in (INT, RAT):
            return f"({s} ≠ 0)"
        self.bad(e, f"condition of type {t}")

    # ---- statements: a block is translated to one Lean term ------------------------------------------------------
    def block(self, stmts, k) -> str:
        """translate `stmts` followed by the continuation `k` (a list of statements, possibly empty)"""
        stmts = list(stmts) + list(k)
        if not stmts:
            self.bad(self.node, "control reaches the end of the function without a return")
        s, rest = stmts[0], stmts[1:]
        if isinstance(s, ast.Expr) and isinstance(s.value, ast.Constant) and isinstance(s.value.value, str):
            return self.block(rest, [])
        if isinstance(s, (ast.Pass, ast.Assert)):
            return self.block(rest, [])
        if isinstance(s, ast.Return):
            if s.value is None:
                self.bad(s, "return without a value")
            v, t = self.expr(s.value)
            return self.ret_coerce(s, v, t)
        if isinstance(s, ast.Raise):
            if self.fn.err is None:
                self.bad(s, "raise (no error value declared in the spec)")
            return self.fn.err
        if isinstance(s, ast.AugAssign) and isinstance(s.target, ast.Name):
            binop = ast.BinOp(left=ast.Name(id=s.target.id, ctx=ast.Load()), op=s.op, right=s.value)
            ast.copy_location(binop, s)
            return self.block([ast.copy_location(ast.Assign(targets=[s.target], value=binop), s)] + rest, [])
        if isinstance(s, ast.AnnAssign) and isinstance(s.target, ast.Name) and s.value is not None:
            return self.block([ast.copy_location(ast.Assign(targets=[s.target], value=s.value), s)] + rest, [])
        if isinstance(s, ast.Assign):
            if len(s.targets) != 1:
                self.bad(s, "chained assignment")
            tgt = s.targets[0]
            if isinstance(tgt, ast.Name):
                dv = _dotted(s.value) if isinstance(s.value, (ast.Attribute, ast.Name)) else None
                if dv and dv.split(".")[0] in self.alias:
                    dv = self.alias[dv.split(".")[0]] + dv[len(dv.split(".")[0]):]
                if dv and dv.startswith("self.") and any(k.startswith(dv[5:] + ".") for k in self.fn.self_attrs):
                    saved_alias = dict(self.alias)            # an object alias (params = self.parameters): no value to bind
                    self.alias[tgt.id] = dv
                    body = self.block(rest, [])
                    self.alias = saved_alias
                    return body
                v, t = self.expr(s.value)
                if t == NUM:
                    v, t = f"({v} : Int)", INT
                saved = dict(self.env)
                self.env[tgt.id] = t
                body = self.block(rest, [])
                self.env = saved
                return f"let {lname(tgt.id)} : {t} := {v}\n{body}"
            if isinstance(tgt, ast.Tuple) and all(isinstance(x, ast.Name) for x in tgt.elts):
                v, t = self.expr(s.value)
                tys = [x.strip() for x in t.split("×")]
                if len(tys) != len(tgt.elts):
                    self.bad(s, "tuple unpacking of a non-tuple")
                tmp = self.fresh()
                saved = dict(self.env)
                lines = [f"let {tmp} : {t} := {v}"]
                for i, (x, ty) in enumerate(zip(tgt.elts, tys)):
                    lines.append(f"let {lname(x.id)} : {ty} := {self.proj(tmp, i, len(tys))}")
                for x, ty in zip(tgt.elts, tys):
                    self.env[x.id] = ty
                body = self.block(rest, [])
                self.env = saved
                return "\n".join(lines) + "\n" + body
            self.bad(s, "assignment target")
        if isinstance(s, ast.If):
            c = self.prop(s.test)
            saved = dict(self.env)
            a = self.block(s.body, rest)
            self.env = dict(saved)
            b = self.block(s.orelse, rest)
            self.env = saved
            return f"if {c} then\n{textwrap.indent(a, '  ')}\nelse\n{textwrap.indent(b, '  ')}"
        self.bad(s, f"statement {type(s).__name__}")

    def ret_coerce(self, node, v, t):
        want = self.fn.ret
        if want is None:
            return v
        if "×" in want:
            return v
        if t == NUM:
            return f"({v} : {want})"
        if t == INT and want == RAT:
            return self.coerce(v, t, RAT)
        if t == BOOL and want in (INT, RAT):
            return f"(if {v} then 1 else 0)"
        return v


def _dotted(e):
    """'a.b.c' for a chain of attribute accesses on a name, else None"""
    parts = []
    while isinstance(e, ast.Attribute):
        parts.append(e.attr)
        e = e.value
    if isinstance(e, ast.Name):
        parts.append(e.id)
        return ".".join(reversed(parts))
    return None


def _norm_expr(e) -> str:
    try:
        return ast.unparse(e).replace(" ", "").replace("numpy.", "np.").replace("+np.inf", "np.inf")
    except Exception:
        return ""


def _norm_call(e: ast.Call) -> str:
    """normalised text of a call: `self.nu.integrate_against_x(-1, +1)` -> 'self.nu.integrate_against_x(-1, 1)'"""
    try:
        txt = ast.unparse(e)
    except Exception:
        return ""
    return txt.replace("+", "").replace(" ", "").replace("numpy.", "np.")


def _find(tree: ast.Module, qualname: str):
    parts = qualname.split(".")
    body, cls = tree.body, None
    if len(parts) == 2:
        for n in tree.body:
            if isinstance(n, ast.ClassDef) and n.name == parts[0]:
                body, cls = n.body, n.name
                break
        else:
            return None, None
    for n in body:
        if isinstance(n, ast.FunctionDef) and n.name == parts[-1]:
            return n, cls
    return None, None


_ANN = {"int": INT, "float": RAT, "bool": BOOL, "Real": RAT}
_sig_cache: dict = {}


def _signature(unit: Unit, fn: Fn):
    """python parameters (name, type) of fn, its return type, and the extra (self-attribute) parameters its body needs"""
    key = (id(unit), fn.qualname)
    if key in _sig_cache:
        return _sig_cache[key]
    node, cls = _find(unit.tree, fn.qualname)
    if node is None:
        raise Untranslatable(f"{unit.path}: function {fn.qualname} not found")
    a = node.args
    if a.vararg or a.kwarg or a.kwonlyargs or a.posonlyargs:
        raise Untranslatable(f"{unit.path}:{node.lineno}: {fn.qualname}: star / keyword-only parameters")
    params = []
    for p in a.args:
        if p.arg in ("self", "cls"):
            continue
        ty = fn.params.get(p.arg)
        if ty is None and p.annotation is not None and isinstance(p.annotation, ast.Name):
            ty = _ANN.get(p.annotation.id)
        if ty is None:
            raise Untranslatable(f"{unit.path}:{node.lineno}: {fn.qualname}: parameter {p.arg} has no declared type")
        params.append((p.arg, ty))
    ret = fn.ret
    if ret is None and isinstance(node.returns, ast.Name):
        ret = _ANN.get(node.returns.id)
    if ret is None:
        raise Untranslatable(f"{unit.path}:{node.lineno}: {fn.qualname}: return type not declared")
    sig = {"py_params": params, "ret": ret, "extra": [], "node": node, "cls": cls}
    _sig_cache[key] = sig
    # translate the body once to discover the extra parameters (self attributes, enum tests)
    tr = _Tr(unit, fn, node, cls)
    tr.env = {n: t for n, t in params}
    saved_ret = fn.ret
    fn.ret = ret
    try:
        body = tr.block(node.body, [])
    finally:
        fn.ret = saved_ret
    order = ["self_" + a.replace("._", "_").replace(".", "_").lstrip("_") for a in fn.self_attrs] \
        + [nm for nm, _ in fn.const_calls.values()] + [nm for nm, _ in fn.const_exprs.values()] \
        + [nm for nm, _, _ in fn.opaque_fns.values()] + list(fn.fn_params.values())
    sig["extra"] = sorted(tr.extra_params, key=lambda nt: (order.index(nt[0]) if nt[0] in order else len(order), nt[0]))
    import re as _re

    def _fill(m):
        over = dict(kv.split("=") for kv in m.group(1).split("|") if kv)
        txt = " ".join(over.get(n, n) for n, _ in sig["extra"])
        return (" " + txt) if txt else ""
    body = _re.sub(r" ?⟪EXTRA((?:\|[^⟫|]+)*)⟫", _fill, body)
    sig["body"] = body
    sig["recursive"] = tr.recursive
    return sig


def translate_unit(repo_root, unit: Unit, namespace: str):
    """Return (lean_text_of_definitions, report).  report[qualname] = "ok" | reason why it is untranslatable."""
    import pathlib
    src = (pathlib.Path(repo_root) / unit.path).read_text()
    unit.tree = ast.parse(src)
    _sig_cache.clear()
    out, report = [], {}
    for q, fn in unit.fns.items():
        try:
            sig = _signature(unit, fn)
        except Untranslatable as e:
            report[q] = str(e)
            continue
        except RecursionError:
            report[q] = f"{unit.path}: {q}: translator recursion limit"
            continue
        node = sig["node"]
        binders = " ".join(f"({lname(n)} : {t[3:] if t.startswith('fn:') else t})" for n, t in sig["py_params"] if t != "obj")
        extra = " ".join(f"({n} : {t})" for n, t in sig["extra"])
        binders = (binders + " " + extra).strip()
        doc = f"/-- {unit.path}:{node.lineno}-{node.end_lineno} `{q}` (translated from the source by harness/py2lean.py) -/"
        body = textwrap.indent(sig["body"], "  ")
        if sig["recursive"]:
            if fn.fuel is None or fn.err is None:
                report[q] = f"{unit.path}:{node.lineno}: {q}: recursive function without `fuel` and `err` in the spec"
                continue
            inner = textwrap.indent(sig["body"], "    ")
            out.append(f"{doc}\ndef {fn.lean_name}_fuel (fuel : Nat) {binders} : {sig['ret']} :=\n  match fuel with\n"
                       f"  | 0 => {fn.err}\n  | fuel + 1 =>\n{inner}\n")
            names = " ".join([lname(n) for n, t in sig["py_params"] if t != "obj"] + [n for n, _ in sig["extra"]])
            out.append(f"def {fn.lean_name} {binders} : {sig['ret']} := {fn.lean_name}_fuel ({fn.fuel}) {names}\n")
        else:
            out.append(f"{doc}\ndef {fn.lean_name} {binders} : {sig['ret']} :=\n{body}\n")
        report[q] = "ok"
    # callers of an untranslatable function are untranslatable too (their text mentions a missing definition)
    changed = True
    while changed:
        changed = False
        for q, fn in unit.fns.items():
            if report.get(q) != "ok":
                continue
            text = next((o for o in out if f"def {fn.lean_name} " in o or f"def {fn.lean_name}_fuel " in o), "")
            for q2, fn2 in unit.fns.items():
                if report.get(q2) not in (None, "ok") and q2 != q and (f"({fn2.lean_name} " in text or f"({fn2.lean_name}_fuel " in text):
                    report[q] = f"calls {q2}, which is untranslatable: {report[q2]}"
                    out = [o for o in out if not (f"def {fn.lean_name} " in o or f"def {fn.lean_name}_fuel " in o)]
                    changed = True
                    break
    return "\n".join(out), report
