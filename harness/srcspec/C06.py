"""Source-derived tie for C06: the Giles allocation and the bias test of rpylib/montecarlo/multilevel/criteria.py.

Translated on every run (harness/py2lean.py): the module constant `THETA`, `compute_mc_paths_giles` (numpy vectors as lists,
elementwise), `criteria_giles`, `criteria_run_to_maximum_level`.  Abstract parameters (universally quantified in the theorems of
lean/RpylibModel/ProofsGen/SrcC06.lean): `sqrt` = `np.sqrt`, `pow2 x` = `2 ** x` for a real x.

The adaptive loop of rpylib/montecarlo/multilevel/engine.py (`MLMCEngine.price`) has no pure helper: its decisions (1 % gate, level
addition, return reasons) are inline in a method that simulates, copies processes and stores statistics — not translated (the
hand-written loop model + correspondence of C05/C06 remain its tie).
"""
from harness.py2lean import Fn, Unit, INT, RAT, BOOL

_NP = {"np.sqrt": "sqrt", "2**": "pow2"}

UNITS = [Unit("rpylib/montecarlo/multilevel/criteria.py", [
    Fn("compute_mc_paths_giles", params={"rmse": RAT, "vl": "List Rat", "cl": "List Rat"}, ret="List Int",
       fn_params=_NP, opts={"np_arrays": ["vl", "cl"]}),
    Fn("criteria_giles", params={"alpha": RAT, "ml": "List Rat", "rmse": RAT}, ret=BOOL, fn_params=_NP),
    Fn("criteria_run_to_maximum_level", params={"alpha": RAT, "ml": "List Rat", "rmse": RAT}, ret=BOOL),
], consts={"THETA": RAT})]


# ---------------------------------------------------------------------------------------------------------------------------
# directed search on the REAL implementation, run when an obligation of ProofsGen/SrcC06.lean no longer checks.
# The identities are the property's own (true for every correct implementation, whatever its share THETA):
#   (V) allocation: with N = compute_mc_paths_giles(rmse, V, C), V >= 0, C > 0: every level with V_l > 0 has N_l >= 1 and
#       sum V_l / N_l <= (variance share) * rmse^2, where variance share = 1 - (bias share) and the bias share is *measured* on the
#       stopping test (largest accepted remaining bias / rmse, squared) — "squared bias tolerance + variance share <= rmse^2";
#   (B) bias test: a positive verdict implies that the extrapolated remaining bias max(m_L, m_{L-1}/2^a, m_{L-2}/4^a)/(2^a - 1),
#       squared, is at most (1 - measured variance share) * rmse^2; monotone in rmse and in the last mean;
#   (R) criteria_run_to_maximum_level never reports convergence.
def search(ctx, lits):
    import itertools
    import math
    import random
    import numpy as np
    from rpylib.montecarlo.multilevel import criteria as cr

    found = [0]

    def fail(name, inp, detail):
        found[0] += 1
        ctx.fail("oracle", "c06.src.search", inp, {"name": name, "detail": detail})

    def alloc(rmse, V, C):
        with np.errstate(all="ignore"):
            return [int(x) for x in cr.compute_mc_paths_giles(rmse, np.array(V, dtype=float), np.array(C, dtype=float))]

    def crit(alpha, ml, rmse):
        with np.errstate(all="ignore"):
            return bool(cr.criteria_giles(alpha, np.array(ml, dtype=float), rmse))

    pos = sorted({abs(float(x)) for l in lits for x in (l, l / 2, l * 2, l + 1, l - 1, l * (1 + 2.0 ** -20), l * (1 - 2.0 ** -20))
                  if isinstance(l, (int, float)) and 0 < abs(float(l)) < 1e12 and abs(float(x)) > 1e-12})
    rmses = sorted(set([1.0, 0.5, 0.25, 0.1, 0.01, 2.0 ** -7, 2.0 ** -10, 3.0, 0.3] + [p for p in pos if 1e-6 <= p <= 1e3]))[:40]

    # ---- the two shares, measured on the running code -------------------------------------------------------------------
    # bias share: (largest remaining bias accepted for rmse = 1)^2, alpha = 1 so that rem = ml[-1]
    lo, hi = 0.0, 64.0
    try:
        top_ok = crit(1.0, [0.0, 0.0, hi], 1.0)
        zero_ok = crit(1.0, [0.0, 0.0, 0.0], 1.0)
    except Exception as e:
        fail("criteria_giles raises", {"alpha": 1.0, "ml": [0.0, 0.0, hi], "rmse": 1.0}, repr(e))
        return
    if top_ok:
        fail("bias test accepts a remaining bias of 64 rmse", {"alpha": 1.0, "ml": [0.0, 0.0, hi], "rmse": 1.0},
             "criteria_giles(1, [0, 0, 64], 1) is True: the squared bias tolerance exceeds rmse^2")
        bias_share = None
    elif not zero_ok:
        fail("bias test refuses a zero remaining bias", {"alpha": 1.0, "ml": [0.0, 0.0, 0.0], "rmse": 1.0},
             "criteria_giles(1, [0, 0, 0], 1) is False")
        bias_share = 0.0
    else:
        for _ in range(60):
            mid = 0.5 * (lo + hi)
            lo, hi = (mid, hi) if crit(1.0, [0.0, 0.0, mid], 1.0) else (lo, mid)
        bias_share = lo * lo
    if bias_share is not None and bias_share > 1.0 + 1e-9:
        fail("squared bias tolerance alone exceeds rmse^2", {"alpha": 1.0, "rmse": 1.0, "largest_accepted_bias": lo},
             f"bias share {bias_share} > 1")
    var_share = 1.0 - min(bias_share, 1.0) if bias_share is not None else 0.75

    # ---- (V) allocation ------------------------------------------------------------------------------------------------
    rnd = random.Random(6)
    fam = []
    for L in range(1, 7):
        for beta, gamma in ((1.0, 1.0), (2.0, 1.0), (0.5, 2.0), (0.0, 0.0), (3.0, 0.5)):
            fam.append(([2.0 ** (-beta * l) for l in range(L)], [2.0 ** (gamma * l) for l in range(L)]))
        fam.append(([rnd.randint(1, 64) ** 2 / 1024.0 for _ in range(L)], [rnd.randint(1, 64) ** 2 / 16.0 for _ in range(L)]))
        fam.append(([rnd.uniform(1e-6, 10.0) for _ in range(L)], [rnd.uniform(1e-3, 1e3) for _ in range(L)]))
        fam.append(([0.0 if l % 2 else 1.5 for l in range(L)], [1.0 + l for l in range(L)]))          # zero variances, positive costs
    for p, q in itertools.product(pos[:12], repeat=2):
        fam.append(([p, q], [q, p]))
        fam.append(([p], [q]))
        fam.append(([1.0, p, 0.25], [1.0, 2.0, q]))
    worst = 0.0
    for V, C in fam:
        for rmse in rmses:
            if found[0] > 12:
                return
            inp = {"rmse": rmse, "vl": V, "cl": C}
            ctx.count("c06.src.search", inp, nontrivial=False)
            try:
                N = alloc(rmse, V, C)
            except Exception as e:
                fail("compute_mc_paths_giles raises", inp, repr(e))
                continue
            if len(N) != len(V):
                fail("allocation has the wrong number of levels", inp, {"N": N})
                continue
            if any(v > 0 and n < 1 for v, n in zip(V, N)):
                fail("a level with positive variance gets no sample", inp, {"N": N})
                continue
            tot = sum(v / n for v, n in zip(V, N) if v > 0)
            worst = max(worst, tot / (rmse * rmse))
            if tot > var_share * rmse * rmse * (1 + 1e-9):
                fail("estimator variance exceeds the variance share", inp,
                     {"N": N, "sum V_l/N_l": tot, "variance share * rmse^2": var_share * rmse * rmse,
                      "variance share": var_share, "measured bias share": bias_share})

    # ---- (B) bias test ---------------------------------------------------------------------------------------------------
    alphas = sorted(set([0.5, 1.0, 1.5, 2.0, 0.25, 3.0] + [p for p in pos if 0.05 <= p <= 6.0]))[:16]
    mls = []
    for n in (3, 4, 6):
        for _ in range(6):
            mls.append([rnd.choice([0.0, 1e-4, 1e-3, 1e-2, 0.1, 0.5, 1.0, 3.0]) for _ in range(n)])
        mls.append([2.0 ** -l for l in range(n)])
        mls.append([0.0] * (n - 1) + [1e-3])
        mls.append([0.0] * (n - 2) + [1e-2, 0.0])
        mls.append([0.0] * (n - 3) + [1e-1, 0.0, 0.0])
        mls.append([7.0] + [0.0] * (n - 1)) if n > 3 else None
    for p in pos[:10]:
        mls += [[p, p / 2, p / 4], [0.0, 0.0, p], [0.0, p, 0.0], [p, 0.0, 0.0]]
    # what the variance share realised by the allocation leaves for the squared bias (never less than the measured bias share)
    bias_cap = 1.0 - min(worst, var_share) if worst > 0 else 1.0 - var_share
    for alpha in alphas:
        q = 2.0 ** alpha
        for ml in mls:
            rem = max(ml[-1], ml[-2] / q, ml[-3] / (q * q)) / (q - 1)
            # tolerances straddling the exact threshold, and the source's literals
            cand = sorted({r for r in rmses} | ({rem / math.sqrt(max(bias_share, 1e-12)) * f for f in (0.5, 0.999, 1.001, 2.0)}
                                              if bias_share and rem > 0 else set()))
            for rmse in cand:
                if found[0] > 12:
                    return
                if not (rmse > 0):
                    continue
                inp = {"alpha": alpha, "ml": ml, "rmse": rmse}
                ctx.count("c06.src.search", inp, nontrivial=False)
                try:
                    ok = crit(alpha, ml, rmse)
                except Exception as e:
                    fail("criteria_giles raises", inp, repr(e))
                    continue
                if ok and rem * rem > bias_cap * rmse * rmse * (1 + 1e-9):
                    fail("bias test passes although squared bias estimate + variance share > rmse^2", inp,
                         {"extrapolated remaining bias": rem, "squared": rem * rem, "variance share (measured)": 1.0 - bias_cap,
                          "rmse^2": rmse * rmse})
                    continue
                if ok and not crit(alpha, ml, 2.0 * rmse):
                    fail("bias test not monotone in rmse", inp, "accepted for rmse, refused for 2*rmse")
                if ok and not crit(alpha, ml[:-1] + [0.5 * ml[-1]], rmse):
                    fail("bias test not monotone in the last mean", inp, "accepted for m_L, refused for m_L/2")

    # ---- (R) ---------------------------------------------------------------------------------------------------------------
    for ml in mls[:8]:
        if cr.criteria_run_to_maximum_level(1.0, np.array(ml), 1.0):
            fail("criteria_run_to_maximum_level reports convergence", {"alpha": 1.0, "ml": ml, "rmse": 1.0}, True)
            break
