"""Source-derived tie for C19, second set (DESIGN.md §9; the first set is SPEC["C19"] in harness/srctie.py): the default
intensities themselves, the legs of the implied-spread maps and the CDS payoff.

Translated on every run from /repo's current source into lean/RpylibModel/Generated/SrcC19b.lean:
  rpylib/numerical/tools.py                      interval_I                     (-inf / +inf are the parameters neg_inf / pos_inf)
  rpylib/numerical/closedform/cflevymodel.py     CFLevyModel._theta, the legs and the residual `fun` of implied_cds_spread
  rpylib/numerical/closedform/cflevycopula.py    CFLevyCopulaModel._theta (whole: guards, diagonal, pair loop, triple term),
                                                 survival_probability, first_to_default_par_spread, legs / residual of
                                                 implied_cds_spread
  rpylib/product/payoff.py                       CDS.evaluate
What the functions read from collaborators is a parameter of the translated definition (universally quantified in
lean/RpylibModel/ProofsGen/SrcC19b.lean):
  mass a b              self.model.mass(a, b)                                      (1-d model)
  interval_I x          rpylib.numerical.tools.interval_I (also translated itself: `interval_I` of the first unit)
  dim                   self.levy_copula_model.dimension()
  n_models              len(self.levy_copula_model.models)
  models_mass i a b     self.levy_copula_model.models[i].mass(a, b)
  pair_tail idx x       self.levy_copula_model.margin_tail_integral(indices=idx, x=x)
  tail_integrals x      self.levy_copula_model.tail_integrals(x=x)
  theta a / theta as    self._theta (where a caller of _theta is translated)
  exp, df               np.exp, CDS._df (the discounting function)

`search(ctx, lits)`: when an obligation of ProofsGen/SrcC19b.lean no longer checks, the statements of its (B)-theorems are
evaluated on the real CFLevyModel / CFLevyCopulaModel / CDS objects: thresholds, recoveries, maturities and default times
built from the numeric literals of the current source of the translated functions (and their neighbours) plus a fixed
structured family.
"""
from __future__ import annotations

from harness.py2lean import Fn, Unit, INT, RAT, BOOL  # noqa: F401

LR, LI = "List Rat", "List Int"

_LCM = "self.levy_copula_model"
_COPULA = dict(
    opaque_fns={_LCM + ".dimension": ("dim", [], INT),
                _LCM + ".models[].mass": ("models_mass", [INT, RAT, RAT], RAT),
                "interval_I": ("interval_I", [RAT], "Rat × Rat"),
                _LCM + ".margin_tail_integral": ("pair_tail", [LI, LR], RAT),
                _LCM + ".tail_integrals": ("tail_integrals", [LR], RAT),
                "self._theta": ("theta", [LR], RAT)},
    fn_params={"np.exp": "exp"},
    const_exprs={_LCM + ".models[0].r": ("r", RAT)},
    opts={"obj_lists": {_LCM + ".models": "n_models"},
          "opaque_kwargs": {_LCM + ".margin_tail_integral": ["indices", "x"], _LCM + ".tail_integrals": ["x"],
                            "self._theta": ["levels_a"]}})

_ONE = dict(
    opaque_fns={"self.model.mass": ("mass", [RAT, RAT], RAT), "interval_I": ("interval_I", [RAT], "Rat × Rat"),
                "self._theta": ("theta", [RAT], RAT)},
    self_attrs={"model.r": RAT}, fn_params={"np.exp": "exp"})

UNITS = [
    Unit("rpylib/numerical/tools.py", [
        Fn("interval_I", params={"x": RAT}, ret="Rat × Rat",
           const_exprs={"-np.inf": ("neg_inf", RAT), "np.inf": ("pos_inf", RAT)}),
    ]),
    Unit("rpylib/numerical/closedform/cflevymodel.py", [
        Fn("CFLevyModel._theta", params={"level_a": RAT}, ret=RAT, **_ONE),
        # the two legs of implied_cds_spread (the statements up to the nested residual function; `pv` is only read by it) ...
        Fn("CFLevyModel.implied_cds_spread#legs", lean_name="CFLevyModel_implied_legs", block=("theta =", "def fun"),
           result="(default_leg, fixed_leg)", params={"level_a": RAT, "recovery_rate": RAT, "maturity": RAT, "pv": RAT},
           ret="Rat × Rat", **_ONE),
        # ... and the residual handed to brentq: the nested `fun` (a closure over the legs and `pv`) applied to a spread
        Fn("CFLevyModel.implied_cds_spread#residual", lean_name="CFLevyModel_implied_residual", block=("theta =", "def fun"),
           result="fun(spread)", params={"level_a": RAT, "recovery_rate": RAT, "maturity": RAT, "pv": RAT, "spread": RAT}, ret=RAT, **_ONE),
    ]),
    Unit("rpylib/numerical/closedform/cflevycopula.py", [
        Fn("CFLevyCopulaModel._theta", params={"levels_a": LR}, ret=RAT, err="((-1) : Rat)", **_COPULA),
        Fn("CFLevyCopulaModel.survival_probability", params={"levels_a": LR, "t": RAT}, ret=RAT, **_COPULA),
        Fn("CFLevyCopulaModel.first_to_default_par_spread", params={"levels_a": LR, "recovery_rate": RAT}, ret=RAT, **_COPULA),
        Fn("CFLevyCopulaModel.implied_cds_spread#legs", lean_name="CFLevyCopulaModel_implied_legs", block=("theta =", "def fun"),
           result="(default_leg, fixed_leg)", params={"level_a": LR, "recovery_rate": RAT, "maturity": RAT, "pv": RAT},
           ret="Rat × Rat", **_COPULA),
        Fn("CFLevyCopulaModel.implied_cds_spread#residual", lean_name="CFLevyCopulaModel_implied_residual", block=("theta =", "def fun"),
           result="fun(spread)", params={"level_a": LR, "recovery_rate": RAT, "maturity": RAT, "pv": RAT, "spread": RAT}, ret=RAT,
           **_COPULA),
    ]),
    Unit("rpylib/product/payoff.py", [
        Fn("CDS.evaluate", params={"default_time": RAT}, ret=RAT,
           self_attrs={"_T": RAT, "recovery_rate": RAT, "spread": RAT, "_r": RAT, "_df_T": RAT},
           opaque_fns={"self._df": ("df", [RAT], RAT)}),
    ]),
]


# ---------------------------------------------------------------------------------------------------------------------
_HEM = dict(sigma=0.1, p=0.5, eta1=11.0, eta2=4.0, intensity=3.0)


def _levels(lits):
    """negative thresholds: a fixed family plus the literals of the current source (mirrored to the negative side) and their
    neighbours — a special case keyed on one particular threshold is hit exactly"""
    base = [-0.05, -0.1, -0.2, -0.35, -0.5, -1.0, -2.0]
    out = set(base)
    for v in lits:
        try:
            v = float(v)
        except (OverflowError, ValueError):
            continue
        if v != v or abs(v) in (float("inf"),):
            continue
        for x in (-abs(v), -abs(v) / 2, -abs(v) / 10, -abs(v) - 2.0 ** -20, -abs(v) + 2.0 ** -20):
            if -6.0 < x < -1e-3:
                out.add(x)
    return sorted(out)


def search(ctx, lits):
    """the identities of the (B)-theorems of ProofsGen/SrcC19b.lean on the real implementation"""
    import itertools
    import math
    import numpy as np
    from harness import zoo
    from harness.props import c19 as H
    from rpylib.numerical.tools import interval_I
    from rpylib.numerical.closedform.cflevymodel import CFLevyModel
    from rpylib.numerical.closedform.cflevycopula import CFLevyCopulaModel
    from rpylib.product.payoff import CDS

    probe = "c19.src.search"
    INF = math.inf
    found = 0

    def hit(name, inp, detail):
        nonlocal found
        ctx.fail("oracle", probe, inp, {"name": name, "detail": detail})
        found += 1

    def near(x, y, scale=1.0):
        return abs(x - y) <= 1e-9 * max(1.0, abs(scale), abs(x), abs(y))

    levels = _levels(lits)
    fl = sorted({float(v) for v in lits if isinstance(v, (int, float)) and abs(float(v)) < 1e6})

    # ---- interval_I: a negative threshold is the lower half-line, a non-negative one the upper half-line
    for x in sorted(set(levels) | {0.0, 0.25, 1.0, 3.0} | {s * (abs(v) + d) for v in fl for s in (-1, 1) for d in (0.0, 2.0 ** -20)}):
        inp = {"fn": "interval_I", "x": x}
        ctx.count(probe, inp, nontrivial=False)
        try:
            got = tuple(float(v) for v in interval_I(x))
        except Exception as e:
            hit("interval_I raises", inp, repr(e))
            continue
        want = (-INF, x) if x < 0 else (x, INF)
        if got != want:
            hit("interval_I(x) is (-inf, x) for x < 0 and (x, +inf) otherwise", inp, {"got": list(map(str, got)), "want": list(map(str, want))})

    # ---- 1-d closed form: theta(a) = nu(-inf, a), >= 0, increasing; survival / spread its stated functions; the legs
    ones = [("hem", dict(_HEM), True, 0.03), ("hem", dict(_HEM, eta2=6.5, intensity=1.5), False, 0.02),
            ("merton", {}, True, 0.05), ("hem", dict(_HEM), True, 0.0)]
    for fam, prm, is_exp, r in ones:
        try:
            m = H.make_model(fam, prm, is_exp, r) if prm else (zoo.make_exp(fam, zoo.draw_params(__import__("random").Random(3), fam), r=r))
        except Exception:
            continue
        cf = CFLevyModel(m)
        prev = None
        for a in levels:
            inp = {"fn": "CFLevyModel._theta", "family": fam, "params": prm, "exp": is_exp, "r": r, "a": a}
            ctx.count(probe, inp, nontrivial=False)
            try:
                th = float(cf._theta(a))
                ref = float(m.levy_triplet.nu.integrate(-INF, a))
            except Exception as e:
                hit("CFLevyModel._theta raises", inp, repr(e))
                continue
            if not near(th, ref, ref):
                hit("theta(a) is the Levy mass of (-inf, a)", inp, {"_theta": th, "nu.integrate(-inf, a)": ref})
            if th < -1e-12:
                hit("theta >= 0", inp, {"_theta": th})
            if prev is not None and th < prev[1] - 1e-9 * max(1.0, abs(prev[1])):
                hit("theta is increasing in the threshold", inp, {"a_below": prev[0], "theta_below": prev[1], "theta": th})
            prev = (a, th)
            for R, T in ((0.4, 1.0), (0.0, 5.0), (0.25, 0.5)):
                try:
                    sp, sv = float(cf.cds_spread(a, R)), float(cf.survival_probability(a, T))
                except Exception as e:
                    hit("cds_spread / survival_probability raises", dict(inp, R=R, T=T), repr(e))
                    continue
                if not near(sp, (1 - R) * ref) or not near(sv, math.exp(-T * ref)):
                    hit("spread = (1-R) theta, survival = exp(-T theta)", dict(inp, R=R, T=T), {"spread": sp, "survival": sv, "theta": ref})
                # spread -> present value -> spread, with the legs written out from theta (r + theta != 0)
                if is_exp and r + ref > 1e-9 and ref > 1e-9:       # a plain Levy model has no interest rate: no legs
                    E = math.exp(-(r + ref) * T)
                    dl, flg = (1 - R) * (1 - E) * ref / (r + ref), (1 - E) / (r + ref)
                    for s in (sp, 0.01, 0.5 * sp + 0.003):
                        if not -4.0 < s < 9.0:
                            continue
                        pv = dl - s * flg
                        try:
                            back = float(cf.implied_cds_spread(pv, a, R, T))
                        except Exception as e:
                            hit("implied_cds_spread raises inside its bracket", dict(inp, R=R, T=T, spread=s), repr(e))
                            continue
                        if not near(back, s, 1.0) and abs(back - s) > 1e-7:
                            hit("implied spread of the present value of s is s (legs = closed-form legs)", dict(inp, R=R, T=T, spread=s),
                                {"pv": pv, "implied": back})
        if found > 20:
            return

    # ---- copula closed form: inclusion-exclusion, sign, monotonicity, guards
    def margins(dim, r=0.03):
        return [H.make_model("hem", dict(_HEM, eta2=4.0 + 1.5 * i, intensity=3.0 - 0.5 * i), True, r) for i in range(dim)]
    cops = [dict(cop="clayton", theta=1.3, eta=0.6), dict(cop="independent"), dict(cop="clayton", theta=0.4, eta=0.9)]
    lv = [a for a in levels if -3.0 <= a][:14]
    special = [a for a in levels if a not in (-0.05, -0.1, -0.2, -0.35, -0.5, -1.0, -2.0)][:6]
    for dim in (2, 3):
        ms = margins(dim)
        cds = list(cops) + [dict(cop="wclayton", alpha=[0.25, 0.5, 0.75][:dim], theta=1.1, eta=0.5)]
        vecs = [tuple(v) for v in itertools.product([-0.1, -0.35, -1.0], repeat=dim)]
        vecs += [tuple(s if k == i else -0.2 - 0.1 * k for k in range(dim)) for s in special for i in range(dim)]
        for cd in cds:
            try:
                cm = zoo.make_copula_model(ms, H.make_cop(cd))
            except Exception:
                continue
            cf = CFLevyCopulaModel(cm)
            vals = {}
            for vec in vecs:
                inp = {"fn": "CFLevyCopulaModel._theta", "dim": dim, "copula": cd, "levels": list(vec)}
                ctx.count(probe, inp, nontrivial=False)
                try:
                    th = float(cf._theta(list(vec)))
                    ref, parts = H.incl_excl(dim, lambda I: H.box_mass_def(cm.copula, ms, [-INF] * dim,
                                                                          [vec[i] if i in I else INF for i in range(dim)]))
                except Exception as e:
                    hit("CFLevyCopulaModel._theta raises", inp, repr(e))
                    continue
                vals[vec] = th
                scale = sum(abs(p) for p in parts)
                if not near(th, ref, scale):
                    hit("theta is the mass of the union of the default half-spaces (inclusion-exclusion)", inp,
                        {"_theta": th, "inclusion_exclusion": ref, "terms": parts})
                if th < -1e-9 * max(1.0, scale):
                    hit("theta >= 0", inp, {"_theta": th})
                for R, T in ((0.4, 1.0),):
                    try:
                        sp, sv = float(cf.first_to_default_par_spread(list(vec), R)), float(cf.survival_probability(list(vec), T))
                    except Exception as e:
                        hit("first_to_default_par_spread / survival_probability raises", dict(inp, R=R, T=T), repr(e))
                        continue
                    if not near(sp, (1 - R) * ref, scale) or not near(sv, math.exp(-T * ref)):
                        hit("FtD spread = (1-R) theta, survival = exp(-T theta)", dict(inp, R=R, T=T), {"spread": sp, "survival": sv, "theta": ref})
                    r0 = float(ms[0].r)
                    if ref > 1e-9:
                        E = math.exp(-(r0 + ref) * T)
                        dl, flg = (1 - R) * (1 - E) * ref / (r0 + ref), (1 - E) / (r0 + ref)
                        for s in (sp, 0.02):
                            if not -9.0 < s < 9.0:
                                continue
                            try:
                                back = float(cf.implied_cds_spread(dl - s * flg, list(vec), R, T))
                            except Exception as e:
                                hit("implied_cds_spread raises inside its bracket", dict(inp, R=R, T=T, spread=s), repr(e))
                                continue
                            if abs(back - s) > 1e-7 * max(1.0, abs(s)):
                                hit("implied spread of the present value of s is s (legs = closed-form legs)", dict(inp, R=R, T=T, spread=s),
                                    {"implied": back})
                if found > 20:
                    return
            for u, v in itertools.product(vals, repeat=2):
                if all(x <= y for x, y in zip(u, v)) and vals[u] > vals[v] + 1e-9 * max(1.0, abs(vals[v])):
                    hit("theta is increasing in each threshold", {"fn": "CFLevyCopulaModel._theta", "dim": dim, "copula": cd,
                                                                   "levels": list(u), "levels_above": list(v)}, {"theta": vals[u], "theta_above": vals[v]})
                    break
        # the guards
        cf = CFLevyCopulaModel(zoo.make_copula_model(ms, H.make_cop(cops[0])))
        bad = [[-0.2] * (dim - 1) + [0.0], [0.1] + [-0.2] * (dim - 1), [-0.2] * (dim - 1), [-0.2] * (dim + 1)]
        for vec in bad:
            inp = {"fn": "CFLevyCopulaModel._theta", "dim": dim, "levels": vec, "guard": True}
            ctx.count(probe, inp, nontrivial=False)
            try:
                v = cf._theta(vec)
            except (ValueError, NotImplementedError):
                continue
            except Exception as e:
                hit("_theta rejects a non-negative level / a wrong number of levels with ValueError", inp, repr(e))
                continue
            hit("_theta rejects a non-negative level / a wrong number of levels", inp, {"returned": float(v)})
    try:
        ms4 = margins(4)
        CFLevyCopulaModel(zoo.make_copula_model(ms4, H.make_cop(cops[0])))._theta([-0.2] * 4)
        hit("_theta is not implemented beyond three names", {"fn": "CFLevyCopulaModel._theta", "dim": 4}, "returned a value")
    except NotImplementedError:
        pass
    except Exception as e:
        ctx.notes.append(f"c19.src.search: the 4-name guard could not be exercised ({type(e).__name__})")

    # ---- CDS.evaluate: defaulted / survived formulas (r != 0: the zero-rate payoff is the known finding)
    times = sorted({0.0, 0.25, 0.5, 1.0, 1.0 + 2.0 ** -30, 2.0, 5.0, 7.5} | {abs(v) + d for v in fl for d in (0.0, 2.0 ** -20, -2.0 ** -20)
                                                                            if 0 <= abs(v) + d < 50})
    for r in (0.05, 0.013):
        def df(t, r=r):
            return math.exp(-r * t)
        for T in sorted({1.0, 5.0} | {abs(v) for v in fl if 0.01 < abs(v) < 30}):
            for R, s in ((0.4, 0.01), (0.0, 0.25), (0.35, 0.0)):
                cds = CDS(recovery_rate=R, spread=s, maturity=T, discounting=df)
                for t in times + [T, T * (1 + 2.0 ** -40), T / 2]:
                    inp = {"fn": "CDS.evaluate", "r": r, "T": T, "R": R, "spread": s, "default_time": t}
                    ctx.count(probe, inp, nontrivial=False)
                    try:
                        got = float(cds.evaluate(t))
                    except Exception as e:
                        hit("CDS.evaluate raises", inp, repr(e))
                        continue
                    want = ((1 - R) * df(t) - s * (1 - df(t)) / r) / df(T) if t <= T else (-s * (1 - df(T)) / r) / df(T)
                    if not near(got, want):
                        hit("payoff of one path = (protection at default before T - premium accrued until min(T, tau)) / df(T)", inp,
                            {"evaluate": got, "formula": want})
                    if found > 30:
                        return
