"""Source-derived tie for C04 (see harness/srcspec/__init__.py)."""
from harness.py2lean import Fn, Unit, INT, RAT, BOOL

_MU_H = dict(opaque_fns={"levy_measure.integrate": ("int_lm", [RAT, RAT], RAT), "grid.middle": ("middle", [RAT, RAT], RAT)})

UNITS = [
    Unit("rpylib/process/markovchain/markovchain.py", [
        Fn("vol_adjustment", params={"model": "obj", "h": RAT}, ret=RAT,
           const_calls={"model.levy_triplet.nu.jump_of_finite_variation()": ("fv", BOOL)},
           opaque_fns={"model.levy_triplet.nu.integrate_against_xx": ("m2", [RAT, RAT], RAT)},
           fn_params={"np.sqrt": "sqrt"}),
        Fn("compute_mu_h", params={"levy_measure": "obj", "grid": "obj", "axis": "List Rat", "origin": INT}, ret=RAT, **_MU_H),
        # the last statements of the constructor: the value is the final `self.equivalent_diffusion_coefficient`
        Fn("MarkovChainProcess.__init__", ret=RAT, lean_name="init_equivalent_diffusion_coefficient",
           params={"model_tilde": "obj", "grid": "obj"},
           stores={"equivalent_diffusion_coefficient": RAT},
           block=("vol_adj=vol_adjustment(", "self_equivalent_diffusion_coefficient="), result="None",
           const_calls={"model_tilde.diffusion_coefficient()": ("sigma", RAT),
                        "model.levy_triplet.nu.jump_of_finite_variation()": ("fv", BOOL)},
           const_exprs={"grid.h": ("h", RAT)},
           opaque_fns={"model.levy_triplet.nu.integrate_against_xx": ("m2", [RAT, RAT], RAT)},
           fn_params={"np.sqrt": "sqrt"}),
        # the drift part of `initialisation` (the choice of the path simulator before it is not C04's subject): the value is the
        # final `self._process_drift`
        Fn("MarkovChainProcess.initialisation", ret=RAT, lean_name="initialisation_process_drift",
           stores={"_process_drift": RAT}, block=("levy_measure=self.model.levy_triplet.nu", "self_process_drift="), result="None",
           self_attrs={"model.levy_triplet.a": RAT},
           const_calls={"self.model.jump_of_finite_variation()": ("fv", BOOL), "self.model.drift()": ("model_drift", RAT)},
           const_exprs={"-np.inf": ("neg_inf", RAT), "np.inf": ("pos_inf", RAT), "self.grid.axes[0]": ("axis", "List Rat"),
                        "self.grid.origin_coordinate.value": ("origin", INT)},
           opaque_fns={"self.model.levy_triplet.nu.integrate_against_x": ("m1", [RAT, RAT], RAT), **_MU_H["opaque_fns"]}),
    ]),
    Unit("rpylib/model/levymodel/levymodel.py", [
        Fn("TruncatedLevyMeasure._truncated_interval", params={"a": RAT, "b": RAT}, ret="Rat × Rat",
           self_attrs={"truncations": "Rat × Rat"}),
        Fn("TruncatedLevyMeasure.integrate", params={"a": RAT, "b": RAT}, ret=RAT, err="(0 : Rat)",
           self_attrs={"truncations": "Rat × Rat"}, opaque_fns={"self.levy_measure.integrate": ("m", [RAT, RAT], RAT)}),
        Fn("TruncatedLevyMeasure.integrate_against_x", params={"a": RAT, "b": RAT}, ret=RAT, err="(0 : Rat)",
           self_attrs={"truncations": "Rat × Rat"}, opaque_fns={"self.levy_measure.integrate_against_x": ("m1", [RAT, RAT], RAT)}),
        Fn("TruncatedLevyMeasure.integrate_against_xx", params={"a": RAT, "b": RAT}, ret=RAT, err="(0 : Rat)",
           self_attrs={"truncations": "Rat × Rat"}, opaque_fns={"self.levy_measure.integrate_against_xx": ("m2", [RAT, RAT], RAT)}),
    ]),
]


# ---------------------------------------------------------------------------------------------------------------------
# directed search on the REAL implementation, run when an obligation of ProofsGen/SrcC04.lean no longer checks.  The
# identities are the ones the (B)-theorems state (true of every correct implementation):
#   mu_h          compute_mu_h = Σ_{k != origin} x_k · integrate(cell_k), cells = middle of the state and its clamped neighbours
#                 (on real grids: = Σ_k x_k q_k with q = create_q_vector, the chain's own rate vector)
#   truncation    TruncatedLevyMeasure.integrate* (a, b) = inner over [a, b] ∩ [l, r]  (0 when they do not meet)
#   vol_adj       vol_adjustment² = 0 (finite variation) | ∫ x² ν over [max(-h/2,-1), min(h/2,1)] (infinite variation)
#   chain         process_drift + Σ_k x_k q_k = model drift + a + ∫_{|x|>v} x ν_truncated,  v = 0 | 1;
#                 equivalent_diffusion_coefficient² = σ² + vol_adjustment²
REL = 1e-9


class _Poly:
    """measure with density 1 + x² (integrals exact polynomials): additive, positive"""

    def __init__(self, fv=True):
        self.fv = fv
        self.calls = []

    @staticmethod
    def _clip(x):
        return max(min(x, 1e6), -1e6)

    def integrate(self, a, b):
        a, b = self._clip(a), self._clip(b)
        return (b - a) + (b ** 3 - a ** 3) / 3

    def integrate_against_x(self, a, b):
        a, b = self._clip(a), self._clip(b)
        return (b ** 2 - a ** 2) / 2 + (b ** 4 - a ** 4) / 4

    def integrate_against_xx(self, a, b):
        a, b = self._clip(a), self._clip(b)
        return (b ** 3 - a ** 3) / 3 + (b ** 5 - a ** 5) / 5

    def jump_of_finite_variation(self):
        return self.fv


def _close(x, y, scale=1.0):
    return abs(x - y) <= REL * max(1.0, abs(x), abs(y), scale)


def _axes(lits):
    """structured axes (uniform, geometric, uneven) for every origin index, plus axes that contain each literal of the source as
    a point / have each small integer literal as a position, the origin on it and next to it"""
    import itertools
    out = []
    for n in range(3, 10):
        for o in range(1, n - 1):
            out.append(([float(k - o) / 4 for k in range(n)], o))
            out.append(([-(2.0 ** (o - k)) / 8 if k < o else (0.0 if k == o else 3.0 ** (k - o) / 16) for k in range(n)], o))
    floats = sorted({float(x) for l in lits if isinstance(l, (int, float)) and 0 < abs(l) < 1e6
                     for x in (l, -l, l / 2, l + 2.0 ** -10, l - 2.0 ** -10) if x != 0})[:60]
    for v in floats:
        pts = sorted({-2.0, -1.0, -0.25, 0.0, 0.5, 1.0, 3.0, v})
        out.append((pts, pts.index(0.0)))
        pts = sorted({-abs(v) - 1.0, 0.0, v, abs(v) + 2.0})
        out.append((pts, pts.index(0.0)))
    ints = sorted({int(l) for l in lits if isinstance(l, int) and 0 <= l <= 40} | {0, 1, 2})
    for p, d in itertools.product(ints, (-1, 0, 1, 2)):
        n = p + 3
        for o in {p + d, 1, n - 2}:
            if 1 <= o <= n - 2:
                out.append(([float(k - o) / 2 if k != p else float(k - o) / 2 + (0.125 if k != o else 0.0) for k in range(n)], o))
    # a literal position p carrying a literal value v (a special case guarded by both)
    for p, v in itertools.product([i for i in ints if i <= 40], floats[:40]):
        if v > 0:
            for o in {max(p - 1, 0), max(p - 3, 0), 1} - {p}:
                if 1 <= o < p:
                    out.append(([-1.0 - (o - k) for k in range(o)] + [0.0] + [v * (k - o) / (p - o) for k in range(o + 1, p + 1)] + [v + 1.0, v + 2.5], o))
        else:
            for o in {p + 1, p + 3}:
                out.append(([v - 2.0 + k * (1.0 / (p + 1)) for k in range(p)] + [v * (o - k) / (o - p) for k in range(p, o)] + [0.0, 0.5, 2.0], o))
    seen, uniq = set(), []
    for ax, o in out:
        key = (tuple(ax), o)
        if key not in seen and all(a < b for a, b in zip(ax, ax[1:])) and ax[o] == 0.0:
            seen.add(key)
            uniq.append((ax, o))
    return uniq


def search(ctx, lits):
    import math
    from types import SimpleNamespace as NS
    import numpy as np
    from rpylib.process.markovchain.markovchain import compute_mu_h, vol_adjustment, MarkovChainProcess
    from rpylib.model.levymodel.levymodel import TruncatedLevyMeasure
    found = [0]

    def fail(name, inp, detail):
        ctx.fail("oracle", "c04.src.search", inp, {"name": name, "detail": detail})
        found[0] += 1

    # ---- mu_h on arbitrary axes: the grid is only asked for `middle`
    mids = {"arithmetic": lambda a, b: 0.5 * (a + b), "weighted": lambda a, b: 0.25 * a + 0.75 * b}
    for (ax, o), (mname, mid) in ((A, M) for A in _axes(lits) for M in mids.items()):
        if found[0] > 12:
            break
        nu = _Poly()
        inp = {"axis": ax, "origin": o, "middle": mname, "density": "1+x^2"}
        ctx.count("c04.src.search", inp, nontrivial=False)
        n = len(ax)
        want = math.fsum(ax[k] * nu.integrate(mid(ax[max(k - 1, 0)], ax[k]), mid(ax[k], ax[min(n - 1, k + 1)]))
                         for k in range(n) if k != o)
        try:
            got = float(compute_mu_h(nu, NS(middle=mid), np.array(ax), o))
        except Exception as e:
            fail("mu_h", inp, {"raised": repr(e)})
            continue
        if not _close(got, want):
            fail("mu_h", inp, {"compute_mu_h": got, "sum_x_k_mass_of_cell_k": want})

    # ---- truncated measure
    vals = sorted({float(x) for l in lits if isinstance(l, (int, float)) and abs(l) < 1e6 for x in (l, -l, l + 0.5, l - 0.5)}
                  | {-3.0, -1.0, -0.5, 0.0, 0.25, 1.0, 2.0, 5.0})[:24]
    inner = _Poly()
    for l, r in ((l, r) for l in vals for r in vals if l < r):
        if found[0] > 24:
            break
        t = TruncatedLevyMeasure(inner, (l, r))
        for a, b in ((a, b) for a in [-np.inf] + vals for b in vals + [np.inf] if a <= b):
            inp = {"truncations": [l, r], "a": a, "b": b}
            ctx.count("c04.src.search", inp, nontrivial=False)
            lo, hi = max(a, l), min(b, r)
            for name in ("integrate", "integrate_against_x", "integrate_against_xx"):
                want = getattr(inner, name)(lo, hi) if lo <= hi else 0.0
                try:
                    got = float(getattr(t, name)(a, b))
                except Exception as e:
                    fail("truncation", dict(inp, method=name), {"raised": repr(e)})
                    continue
                if not _close(got, want):
                    fail("truncation", dict(inp, method=name), {"truncated": got, "inner_over_the_intersection": want})
            if found[0] > 24:
                break

    # ---- vol_adjustment
    hs = sorted({float(x) for l in lits if isinstance(l, (int, float)) and 0 < abs(l) < 1e3 for x in (abs(l), 2 * abs(l), abs(l) / 2, 4 * abs(l))}
                | {0.01, 0.1, 0.5, 1.0, 2.0, 2.5, 4.0})[:40]
    for h in hs:
        for fv in (True, False):
            nu = _Poly(fv)
            inp = {"h": h, "finite_variation": fv, "density": "1+x^2"}
            ctx.count("c04.src.search", inp, nontrivial=False)
            want = 0.0 if fv else nu.integrate_against_xx(max(-h / 2, -1.0), min(h / 2, 1.0))
            try:
                got = float(vol_adjustment(NS(levy_triplet=NS(nu=nu)), h)) ** 2
            except Exception as e:
                fail("vol_adjustment", inp, {"raised": repr(e)})
                continue
            if not _close(got, want):
                fail("vol_adjustment", inp, {"vol_adjustment_squared": got, "second_moment_of_the_central_interval": want})

    # ---- real chains
    from harness import zoo
    from rpylib.distribution.sampling import SamplingMethod
    from rpylib.distribution.samplingfactory import create_q_vector
    from rpylib.product.payoff import Vanilla, PayoffType
    from rpylib.product.product import Product
    from rpylib.product.underlying import Spot
    prod = Product(payoff_underlying=Spot(), payoff=Vanilla(strike=100.0, payoff_type=PayoffType.CALL), maturity=1.0)
    cases = [("hem", {}), ("merton", {}), ("vg", {}), ("cgmy", dict(c=0.5, g=8.0, m=12.0, y=0.5)),
             ("cgmy", dict(c=0.5, g=8.0, m=12.0, y=1.5)), ("cgmy", dict(c=0.5, g=8.0, m=12.0, y=1.0))]
    grids = [("fixed", dict(h=0.25, nb_of_points=11)), ("fixed", dict(h=0.05, nb_of_points=9)),
             ("geometric_bounds", dict(h=0.1, nb=4, truncations=(-1.5, 2.0)))]
    for (fam, prm), (kind, gkw), exp in ((c, g, e) for c in cases for g in grids for e in (False, True)):
        if found[0] > 36:
            break
        inp = {"family": fam, "params": prm, "exponential": exp, "grid": kind, "grid_args": {k: (list(v) if isinstance(v, tuple) else v) for k, v in gkw.items()}}
        try:
            model = zoo.make_exp(fam, prm) if exp else zoo.make_levy(fam, prm)
            g, _ = zoo.make_grid(kind, model, gkw["h"], **{k: v for k, v in gkw.items() if k != "h"})
            mc = MarkovChainProcess(model, SamplingMethod.INVERSION, g)
            mc.initialisation(prod)
        except Exception as e:
            ctx.notes.append(f"c04.src.search: chain {inp} not built: {type(e).__name__}: {e}")
            continue
        ctx.count("c04.src.search", inp, nontrivial=False)
        nu = mc.model.levy_triplet.nu
        ax = [float(x) for x in g.axes[0]]
        o = int(g.origin_coordinate.value)
        q = [float(x) for x in create_q_vector(nu, g)]
        fv = bool(mc.model.jump_of_finite_variation())
        v = 0.0 if fv else 1.0
        drift = float(np.ravel(mc.process_drift())[0])
        mdrift = float(np.ravel(mc.model.drift())[0]) if np.ndim(mc.model.drift()) else float(mc.model.drift())
        jump_mean = math.fsum(x * y for x, y in zip(ax, q))
        tails = float(nu.integrate_against_x(-np.inf, -v)) + float(nu.integrate_against_x(v, np.inf))
        want = mdrift + float(mc.model.levy_triplet.a) + tails
        scale = math.fsum(abs(x) * y for x, y in zip(ax, q)) + abs(mdrift) + abs(tails)
        if not _close(drift + jump_mean, want, scale):
            fail("chain_mean", inp, {"process_drift_plus_jump_mean": drift + jump_mean, "drift_plus_a_plus_tails": want,
                                     "process_drift": drift, "jump_mean": jump_mean})
        mu_h = float(compute_mu_h(nu, g, g.axes[0], o))
        if not _close(mu_h, jump_mean, scale):
            fail("mu_h_vs_rates", inp, {"compute_mu_h": mu_h, "sum_x_k_q_k": jump_mean})
        h = float(g.h)
        sigma = float(mc.model.diffusion_coefficient())
        central = 0.0 if fv else float(nu.integrate_against_xx(max(-h / 2, -1.0), min(h / 2, 1.0)))
        eq2 = float(mc.equivalent_diffusion_coefficient) ** 2
        if not _close(eq2, sigma ** 2 + central):
            fail("equivalent_diffusion_coefficient", inp, {"eqdiff_squared": eq2, "sigma_squared": sigma ** 2,
                                                           "second_moment_of_the_central_interval": central})
