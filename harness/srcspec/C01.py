"""Source-derived tie for C01 (see harness/srcspec/__init__.py)."""
from harness.py2lean import Fn, Unit, INT, RAT, BOOL

LR = "List Rat"
LI = "List Int"
_GRID_ND = {"grid.middle": ("middle", [LR, LR], LR), "grid.left_point": ("left_point", [LI], LR),
            "grid.right_point": ("right_point", [LI], LR)}
_GRID = {"grid.middle": ("middle", [RAT, RAT], RAT), "grid.left_point": ("left_point", [INT], RAT),
         "grid.right_point": ("right_point", [INT], RAT)}

UNITS = [
    Unit("rpylib/distribution/samplingfactory.py", [
        Fn("create_q_vector", params={"levy_measure": "obj", "grid": "obj"}, ret=LR,
           opaque_fns={"levy_measure.integrate": ("int_lm", [RAT, RAT], RAT), **_GRID},
           const_exprs={"grid.origin_coordinate": ("origin", INT), "grid.axes[0]": ("axis", LR)}),
        # the per-state probability of the inversion sampler (a closure of create_sampling_inversion_method), 1-d reading:
        # `state` is the position on the axis, `grid[state]` the point, `model.mass` the interval mass
        Fn("create_sampling_inversion_method#prob", lean_name="probability_to_jump_to_state",
           block=("value=grid[state]", "prob=state_mass/intensity_of_jumps"), result="prob",
           params={"state": INT}, ret=RAT, opaque_index={"grid": ("grid_at", INT, RAT)},
           opaque_fns={"model.mass": ("mass", [RAT, RAT], RAT), **_GRID},
           const_exprs={"intensity_of_jumps": ("intensity_of_jumps", RAT)}),
        # the intensity the process reports, 1-d case (`model.dimension_model() == 1`: the scalars h_left / h_right are wrapped
        # into one-element lists); the general loop over the 3^d - 1 blocks is translated as it stands
        Fn("compute_intensity_of_jumps#1d", lean_name="compute_intensity_of_jumps_1d", params={"model": "obj", "grid": "obj"}, ret=RAT,
           opaque_fns={"model.mass": ("mass", [LR, LR], RAT), **_GRID},
           const_exprs={"grid.origin_coordinate": ("origin", INT), "grid.origin": ("grid_origin", RAT),
                        "grid.axes": ("axes", "List (List Rat)")},
           opts={"static_tests": {"model.dimension_model()==1": True}, "opaque_kwargs": {"model.mass": ["a", "b"]}}),
        # the same function in the general case (d >= 2: h_left / h_right are the tuples the n-d grid operations return)
        Fn("compute_intensity_of_jumps#nd", lean_name="compute_intensity_of_jumps_nd", params={"model": "obj", "grid": "obj"}, ret=RAT,
           opaque_fns={"model.mass": ("mass", [LR, LR], RAT), **_GRID_ND},
           const_exprs={"grid.origin_coordinate": ("origin", LI), "grid.origin": ("grid_origin", LR),
                        "grid.axes": ("axes", "List (List Rat)")},
           opts={"static_tests": {"model.dimension_model()==1": False}, "opaque_kwargs": {"model.mass": ["a", "b"]}}),
        # the per-state probability, n-d reading: `state` is the tuple of positions, `grid[state]` the point, `model.mass` the box mass
        Fn("create_sampling_inversion_method#prob_nd", lean_name="probability_to_jump_to_state_nd",
           block=("value=grid[state]", "prob=state_mass/intensity_of_jumps"), result="prob",
           params={"state": LI}, ret=RAT, opaque_index={"grid": ("grid_at", LI, LR)},
           opaque_fns={"model.mass": ("mass", [LR, LR], RAT), **_GRID_ND},
           const_exprs={"intensity_of_jumps": ("intensity_of_jumps", RAT)}),
    ]),
    Unit("rpylib/grid/grid.py", [
        Fn("Grid.__getitem__@CoordinateND", lean_name="Grid_getitem_nd", params={"coordinates": LI}, ret=LR,
           self_attrs={"axes": "List (List Rat)"}),
    ]),
    Unit("rpylib/grid/spatial.py", [
        Fn("CTMCGrid.left_point", params={"coordinate": INT}, ret=RAT, const_exprs={"self.axes[0]": ("axis", LR)}),
        Fn("CTMCGrid.right_point", params={"coordinate": INT}, ret=RAT, const_exprs={"self.axes[0]": ("axis", LR)}),
        Fn("CTMCGrid.middle@float", params={"xi": RAT, "xip": RAT}, ret=RAT),
        # the implementations the copula chain dispatches to: CoordinateND positions, tuples of floats
        Fn("CTMCGrid.left_point@CoordinateND", lean_name="CTMCGrid_left_point_nd", params={"coordinate": LI}, ret=LR,
           self_attrs={"axes": "List (List Rat)"}),
        Fn("CTMCGrid.right_point@CoordinateND", lean_name="CTMCGrid_right_point_nd", params={"coordinate": LI}, ret=LR,
           self_attrs={"axes": "List (List Rat)"}),
        Fn("CTMCGrid.middle", lean_name="CTMCGrid_middle_nd", params={"xi": LR, "xip": LR}, ret=LR),
    ]),
    Unit("rpylib/model/levymodel/levymodel.py", [
        Fn("TruncatedLevyMeasure._truncated_interval", params={"a": RAT, "b": RAT}, ret="Rat × Rat",
           self_attrs={"truncations": "Rat × Rat"}),
        Fn("TruncatedLevyMeasure.integrate", params={"a": RAT, "b": RAT}, ret=RAT, err="(0 : Rat)",
           self_attrs={"truncations": "Rat × Rat"}, opaque_fns={"self.levy_measure.integrate": ("integrate", [RAT, RAT], RAT)}),
    ]),
]


# ---------------------------------------------------------------------------------------------------------------------
# directed search on the REAL implementation, run when an obligation of ProofsGen/SrcC01.lean no longer checks.  The
# identities are the property's (the (B) theorems): true of every correct implementation.  Inputs: the numeric literals of
# the current source of the translated functions and their neighbours (as axis points, positions, sizes, interval ends),
# plus a fixed structured family (uniform / unequal-step / one-sided-heavy axes of 3..12 points, every origin position).
def search(ctx, lits):
    import types
    import numpy as np
    from rpylib.grid.spatial import CTMCGrid
    from rpylib.distribution.samplingfactory import (create_q_vector, compute_intensity_of_jumps,
                                                     create_sampling_inversion_method)
    from rpylib.model.levymodel.levymodel import TruncatedLevyMeasure, LevyModel

    PROBE = "c01.src.search"
    found = [0]

    def fail(name, inp, detail):
        found[0] += 1
        ctx.fail("oracle", PROBE, inp, {"name": name, "detail": detail})

    def close(a, b, scale=1.0):
        return abs(a - b) <= 1e-12 * max(1.0, abs(a), abs(b), scale)

    # exact, additive, non-negative interval masses (dyadic arguments give exact floats for the first two)
    def F_leb(x):
        return x

    def F_quad(x):
        return x + x * abs(x) / 4.0

    class Nu:
        def __init__(self, name, F=None):
            self.name, self.F = name, F

        def integrate(self, a, b):
            a, b = float(a), float(b)
            if self.F is not None:
                return self.F(b) - self.F(a)
            return (1.0 / a - 1.0 / b) if (a > 0 or b < 0) else float("nan")     # infinite activity: never asked across 0

    measures = [Nu("lebesgue", F_leb), Nu("quadratic", F_quad), Nu("inverse_square")]

    class Model:
        mass = LevyModel.mass

        def __init__(self, nu):
            self.levy_triplet = types.SimpleNamespace(nu=nu)

        def dimension_model(self):
            return 1

        def dimension(self):
            return 1

    nums = sorted({float(v) for v in lits if isinstance(v, (int, float)) and abs(v) < 1e9})
    ints = sorted({int(v) for v in lits if isinstance(v, int) and 0 <= v < 2000})

    # ---- axes -------------------------------------------------------------------------------------------------------
    axes = []                                                   # (axis as list of floats, origin position)
    for n_left in range(1, 7):
        for n_right in range(1, 7):
            if n_left + n_right > 9 and (n_left, n_right) not in ((6, 6), (1, 6), (6, 1)):
                continue
            axes.append(([-0.5 * (n_left - i) for i in range(n_left)] + [0.0] + [0.5 * (i + 1) for i in range(n_right)], n_left))
            axes.append(([-float(2 ** (n_left - i)) / 4 for i in range(n_left)] + [0.0]
                         + [float(3 ** (i + 1)) / 8 for i in range(n_right)], n_left))
    for v in nums:                                              # literals (and neighbours) as axis points
        for w in {abs(v), abs(v) + 1.0, abs(v) / 2 + 0.25}:
            if 0 < w < 1e6:
                axes.append(([-2 * w - 1, -w, -w / 4, 0.0, w / 2, w, w + 0.5, 3 * w + 2], 3))
                axes.append(([-w, 0.0, w], 1))
    for n in sorted({m_ + d for m_ in ints for d in (-1, 0, 1, 2)} | {3, 4, 5, 8, 16, 17, 33}):
        if 3 <= n <= 400:                                        # literals as sizes / positions: every origin near them
            for o in sorted({1, n // 2, n - 2} | {m_ + d for m_ in ints for d in (-1, 0, 1)}):
                if 1 <= o <= n - 2:
                    axes.append(([0.25 * (i - o) for i in range(n)], o))
    seen, uniq = set(), []
    for ax, o in axes:
        key = (tuple(ax), o)
        if key not in seen and len(ax) >= 3 and all(a < b for a, b in zip(ax, ax[1:])) and ax[o] == 0.0 and 0 < o < len(ax) - 1:
            seen.add(key)
            uniq.append((ax, o))

    for ax, o in uniq[:260]:
        n = len(ax)
        inp0 = {"axis": ax, "origin_coordinate": o}
        try:
            grid = CTMCGrid(h=min(b - a for a, b in zip(ax, ax[1:])), origin_coordinate=o, axes=[np.array(ax, dtype=float)])
        except Exception as e:
            fail("grid_constructor_raised", inp0, repr(e))
            continue
        lo = [ax[0]] + [0.5 * (ax[k - 1] + ax[k]) for k in range(1, n)]          # the cells, computed independently
        hi = [0.5 * (ax[k] + ax[k + 1]) for k in range(n - 1)] + [ax[-1]]
        ctx.count(PROBE, inp0, nontrivial=False)
        # the grid's operations: clamped neighbours, middle inside the gap, cells tile from the first to the last point
        try:
            for k in range(n):
                lp, rp = float(grid.left_point(k)), float(grid.right_point(k))
                if lp != ax[max(0, k - 1)] or rp != ax[min(n - 1, k + 1)]:
                    fail("neighbours_are_not_the_clamped_neighbours", dict(inp0, k=k), {"left_point": lp, "right_point": rp})
                cl, ch = float(grid.middle(lp, ax[k])), float(grid.middle(ax[k], rp))
                if not (cl <= ax[k] <= ch) or (k > 0 and not cl < ax[k]) or (k < n - 1 and not ax[k] < ch):
                    fail("state_not_inside_its_cell", dict(inp0, k=k), {"cell": [cl, ch], "state": ax[k]})
                if k + 1 < n and ch != float(grid.middle(float(grid.left_point(k + 1)), ax[k + 1])):
                    fail("consecutive_cells_do_not_share_their_boundary", dict(inp0, k=k),
                         {"upper_end": ch, "next_lower_end": float(grid.middle(float(grid.left_point(k + 1)), ax[k + 1]))})
            if float(grid.middle(float(grid.left_point(0)), ax[0])) != ax[0] or float(grid.middle(ax[-1], float(grid.right_point(n - 1)))) != ax[-1]:
                fail("cells_do_not_cover_the_truncated_support", inp0, {})
        except Exception as e:
            fail("grid_operation_raised", inp0, repr(e))
        for nu0 in measures:
            inp = dict(inp0, measure=nu0.name)
            try:
                nu = TruncatedLevyMeasure(nu0, (ax[0], ax[-1]))
                q = [float(x) for x in create_q_vector(nu, grid)]
                want = [0.0 if k == o else nu0.integrate(lo[k], hi[k]) for k in range(n)]
                total = nu0.integrate(ax[0], lo[o]) + nu0.integrate(hi[o], ax[-1])
                if len(q) != n:
                    fail("one_rate_per_state", inp, {"len": len(q)})
                    continue
                bad = [k for k in range(n) if not close(q[k], want[k], total)]
                if bad:
                    fail("rate_is_not_the_mass_of_the_cell", dict(inp, k=bad[0]), {"rate": q[bad[0]], "cell_mass": want[bad[0]],
                                                                                 "cell": [lo[bad[0]], hi[bad[0]]]})
                if min(q) < -1e-15:
                    fail("negative_rate", inp, {"rates": q})
                inten = float(compute_intensity_of_jumps(Model(nu), grid))
                if not close(sum(q), inten, total) or not close(inten, total, total):
                    fail("sum_of_rates_is_not_the_intensity", inp, {"sum_rates": sum(q), "intensity_of_jumps": inten,
                                                                    "mass_of_support_minus_origin_cell": total})
                if total > 0:
                    inv = create_sampling_inversion_method(grid, Model(nu), inten, False)
                    ps = {k: float(inv.probability_to_jump_to_state(k - o)) for k in range(n) if k != o}
                    badp = [k for k in ps if not close(ps[k] * inten, want[k], total)]
                    if badp:
                        fail("probability_times_intensity_is_not_the_cell_mass", dict(inp, k=badp[0]),
                             {"probability": ps[badp[0]], "intensity": inten, "cell_mass": want[badp[0]]})
                    if not close(sum(ps.values()), 1.0):
                        fail("probabilities_do_not_sum_to_one", inp, {"sum": sum(ps.values())})
            except Exception as e:
                fail("raised", inp, repr(e))
            if found[0] > 20:
                return

    # ---- n-d: the copula chain's grid operations, intensity and per-state probabilities --------------------------------
    import itertools
    from rpylib.grid.grid import Coordinates

    class ModelNd:
        def __init__(self, d):
            self.d = d

        def dimension_model(self):
            return self.d

        def dimension(self):
            return self.d

        def mass(self, a, b):                      # product measure with densities 1, 2, 3, .. : exact on dyadic boxes
            r = 1.0
            for i, (x, y) in enumerate(zip(a, b)):
                r *= (float(y) - float(x)) * (i + 1)
            return r

    lit_axes = [(ax, o) for ax, o in uniq if len(ax) == 8 and o == 3 and ax[5] + 0.5 == ax[6]][:24]     # the axes built on the literals
    base_nd = [([-4.0, -2.0, -1.0, 0.0, 1.0, 3.0, 7.0], 3), ([-3.0, -1.0, -0.5, 0.0, 0.25, 2.0], 3),
               ([-8.0, -1.0, -0.25, 0.0, 4.0, 5.0, 6.0, 9.0], 3), ([-1.0, -0.5, -0.25, 0.0, 0.5], 3)]
    combos = [[base_nd[0], base_nd[1]], [base_nd[1], base_nd[0]], [base_nd[0], base_nd[1], base_nd[2]],
              [base_nd[3], base_nd[2]], [base_nd[2], base_nd[3], base_nd[1]]]
    for ax, o in lit_axes:                         # an axis made of the literals next to axes of other lengths, same origin position
        combos.append([(ax, o), base_nd[1]])
        combos.append([base_nd[0], (ax, o)])
        combos.append([base_nd[1], base_nd[3], (ax, o)])
    for combo in combos[:80]:
        axs, o = [c[0] for c in combo], combo[0][1]
        d = len(axs)
        inp0 = {"axes": axs, "origin_coordinate": o}
        try:
            grid = CTMCGrid(h=0.25, origin_coordinate=o, axes=[np.array(a_, dtype=float) for a_ in axs])
            model = ModelNd(d)
            lo = [[a_[0]] + [0.5 * (a_[k - 1] + a_[k]) for k in range(1, len(a_))] for a_ in axs]
            hi = [[0.5 * (a_[k] + a_[k + 1]) for k in range(len(a_) - 1)] + [a_[-1]] for a_ in axs]
            ctx.count(PROBE, inp0, nontrivial=False)
            states = list(itertools.product(*[range(len(a_)) for a_ in axs]))
            total = 0.0
            for st in states:
                cst = Coordinates(list(st))
                lp, rp, pt_ = [float(x) for x in grid.left_point(cst)], [float(x) for x in grid.right_point(cst)], [float(x) for x in grid[cst]]
                want_lp = [axs[i][max(0, st[i] - 1)] for i in range(d)]
                want_rp = [axs[i][min(len(axs[i]) - 1, st[i] + 1)] for i in range(d)]
                if lp != want_lp or rp != want_rp or pt_ != [axs[i][st[i]] for i in range(d)]:
                    fail("nd_neighbours_are_not_the_clamped_neighbours_on_each_axis", dict(inp0, state=list(st)),
                         {"left_point": lp, "right_point": rp, "point": pt_, "expected_left": want_lp, "expected_right": want_rp})
                    break
                cl, ch = [float(x) for x in grid.middle(tuple(lp), tuple(pt_))], [float(x) for x in grid.middle(tuple(pt_), tuple(rp))]
                if cl != [lo[i][st[i]] for i in range(d)] or ch != [hi[i][st[i]] for i in range(d)]:
                    fail("nd_cell_is_not_the_product_of_the_1d_cells", dict(inp0, state=list(st)), {"cell_lo": cl, "cell_hi": ch})
                    break
                if any(st[i] != o for i in range(d)):
                    total += model.mass([lo[i][st[i]] for i in range(d)], [hi[i][st[i]] for i in range(d)])
            inten = float(compute_intensity_of_jumps(model, grid))
            if not close(inten, total, total):
                fail("nd_intensity_is_not_the_sum_of_the_cell_masses", inp0, {"intensity_of_jumps": inten, "sum_of_cell_masses": total})
            inv = create_sampling_inversion_method(grid, model, inten, True)
            psum = 0.0
            for st in states:
                if all(st[i] == o for i in range(d)):
                    continue
                pr = float(inv.probability_to_jump_to_state([st[i] - o for i in range(d)]))
                cm = model.mass([lo[i][st[i]] for i in range(d)], [hi[i][st[i]] for i in range(d)])
                psum += pr
                if not close(pr * inten, cm, total):
                    fail("nd_probability_times_intensity_is_not_the_cell_mass", dict(inp0, state=list(st)),
                         {"probability": pr, "intensity": inten, "cell_mass": cm})
                    break
            if not close(psum, 1.0):
                fail("nd_probabilities_do_not_sum_to_one", inp0, {"sum": psum})
        except Exception as e:
            fail("nd_raised", inp0, repr(e))
        if found[0] > 20:
            return

    # ---- middle / truncated measure on the literals --------------------------------------------------------------------
    pts = sorted({x for v in nums for x in (v, -v, v + 1, v - 1, v / 2, v + 2.0 ** -10, v - 2.0 ** -10)}
                 | {-3.0, -1.0, -0.25, 0.0, 0.25, 1.0, 2.5, 8.0})
    pts = [p for p in pts if abs(p) < 1e9][:60]
    g0 = CTMCGrid(h=1.0, origin_coordinate=1, axes=[np.array([-1.0, 0.0, 1.0])])
    for a in pts:
        for b in pts:
            if a <= b:
                try:
                    mid = float(g0.middle(float(a), float(b)))
                    ctx.count(PROBE, {"middle": [a, b]}, nontrivial=False)
                    if (a < b and not a < mid < b) or (a == b and mid != a):
                        fail("middle_not_inside_the_gap", {"xi": a, "xip": b}, {"middle": mid})
                except Exception as e:
                    fail("middle_raised", {"xi": a, "xip": b}, repr(e))
    nu0 = measures[1]
    for l in pts[::3]:
        for r in pts[::3]:
            if not (l < r and l != 0 and r != 0):
                continue
            tm = TruncatedLevyMeasure(nu0, (l, r))
            for a in pts[::2]:
                for b in pts[::2]:
                    if a > b:
                        continue
                    inp = {"truncations": [l, r], "a": a, "b": b}
                    try:
                        aa, bb = (float(x) for x in tm._truncated_interval(a, b))
                        val = float(tm.integrate(a, b))
                    except Exception as e:
                        fail("truncated_measure_raised", inp, repr(e))
                        continue
                    ctx.count(PROBE, inp, nontrivial=False)
                    wa, wb = min(max(a, l), r), max(min(b, r), l)                 # the intersection (collapsed when empty)
                    if (aa, bb) != (wa, wb):
                        fail("truncated_interval_is_not_the_intersection", inp, {"got": [aa, bb], "intersection": [wa, wb]})
                    if not close(val, nu0.integrate(wa, wb)):
                        fail("truncated_mass_is_not_the_mass_of_the_intersection", inp, {"got": val, "want": nu0.integrate(wa, wb)})
                    if found[0] > 20:
                        return
