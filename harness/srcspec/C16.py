"""Source-derived tie for C16 (DESIGN.md §9): the discount curves of the two rate models, the base model's df and sde drift,
the constant coefficient.

Translated on every run from /repo's current source:
  rpylib/model/levydrivensde/levylibormodel.py    LevyLiborModel.df
  rpylib/model/levydrivensde/levyforwardmodel.py  LevyForwardModel.df
  rpylib/model/levydrivensde/levydrivensde.py     LevyDrivenSDEModel.df, LevyDrivenSDEModel.drift, Constant.__call__
`self.tenors` (the sorted tenor array) and `self.x0` (the initial curve) are parameters of the translated definitions
(lists of rationals, universally quantified in the theorems of lean/RpylibModel/ProofsGen/SrcC16.lean).

`search(ctx, lits)`: when an obligation of ProofsGen/SrcC16.lean no longer checks, the statements of its (B)-theorems are
evaluated on the real LevyLiborModel / LevyForwardModel / LevyDrivenSDEModel objects, on curves and times built from the
numeric literals of the current source of the three functions (and their neighbours) plus a fixed structured family.
"""
from __future__ import annotations

from harness.py2lean import Fn, Unit, INT, RAT, BOOL  # noqa: F401

_DF = dict(params={"t": RAT}, ret=RAT, self_attrs={"tenors": "List Rat", "x0": "List Rat"})

UNITS = [
    Unit("rpylib/model/levydrivensde/levylibormodel.py", [Fn("LevyLiborModel.df", **_DF)]),
    Unit("rpylib/model/levydrivensde/levyforwardmodel.py", [Fn("LevyForwardModel.df", **_DF)]),
    Unit("rpylib/model/levydrivensde/levydrivensde.py", [
        Fn("LevyDrivenSDEModel.df", params={"t": RAT}, ret=RAT),
        # the sde drift of the base model (what `MarkovChainSDE.sde_drift` returns): the state is read as the list of its entries
        Fn("LevyDrivenSDEModel.drift", params={"t": RAT, "x": "List Rat"}, ret="List Rat"),
        # the constant coefficient: the stored (m, d) matrix, a list of rows
        Fn("Constant.__call__", params={"t": RAT, "x": "List Rat"}, ret="List (List Rat)",
           self_attrs={"constant_matrix": "List (List Rat)"}, lean_name="Constant_call"),
    ]),
]


# ---------------------------------------------------------------------------------------------------------------------
def _curves(lits):
    """(rates, tenors): strictly increasing non-negative tenors, non-negative rates, len(tenors) = len(rates) + 1"""
    fixed = [
        ([0.02], [5.0, 6.0]),
        ([0.02] * 5, [5.0, 6.0, 7.0, 8.0, 9.0, 10.0]),                       # the factory's default curve
        ([0.02, 0.0, 0.05], [0.5, 2.0, 2.25, 3.0]),                         # unequal accrual periods, a zero rate
        ([0.0, 0.0], [1.0, 2.0, 3.0]),                                      # all-zero curve: df = 1
        ([0.1, 0.25, 0.03, 0.0, 0.2], [0.0, 1 / 64, 1 / 8, 0.875, 3.875, 11.875]),   # first tenor 0, 1/64 .. 8 year periods
        ([0.01, 0.02, 0.03, 0.04, 0.05, 0.06, 0.07], [0.25, 0.5, 0.75, 1.0, 1.25, 1.5, 1.75, 2.0]),
        ([0.15, 0.01], [1.0, 1.5, 30.0]),
    ]
    pos = sorted({abs(float(v)) for v in lits if 0 < abs(float(v)) < 1e6})
    out = list(fixed)
    for v in pos[:12]:
        # the literal inside an accrual period, exactly at a tenor, and as the first / last tenor
        out.append(([0.02, 0.03, 0.01], [v / 2, v * 0.75, v * 1.5, v * 2]))
        out.append(([0.05, 0.0, 0.04, 0.02], [v / 4, v / 2, v, v * 2, v * 4]))
        out.append(([0.03, 0.06], [v, v + 1.0, v + 2.5]))
        out.append(([0.03, 0.06], [v / 3, v / 2, v]))
        if v <= 1.0:                                                         # a small literal may be meant as a rate
            out.append(([v, 0.02, v / 2], [0.5, 1.0, 2.0, 4.0]))
    return out


def _times(tenors, lits):
    last = tenors[-1]
    ts = {0.0, last}
    for T in tenors:
        for dl in (0.0, 2.0 ** -30, 2.0 ** -20, 2.0 ** -10):
            ts.update((T - dl, T + dl))
    for i in range(33):
        ts.add(last * i / 32)
    for v in lits:
        v = float(v)
        for w_ in (v, -v, v / 2, v * 2):
            for dl in (0.0, 2.0 ** -20, -2.0 ** -20, 1.0, -1.0):
                ts.add(w_ + dl)
    return sorted(t for t in ts if 0.0 <= t <= last)


def search(ctx, lits):
    from fractions import Fraction as Fr
    import math
    import numpy as np
    from harness import zoo
    from rpylib.model.levydrivensde.levydrivensde import LevyDrivenSDEModel
    from rpylib.model.levydrivensde.levyforwardmodel import LevyForwardModel
    from rpylib.model.levydrivensde.levylibormodel import LevyLiborModel

    probe = "c16.src.search"
    driver = zoo.make_levy("hem", {})
    found = 0

    def hit(inp, name, detail):
        nonlocal found
        ctx.fail("oracle", probe, inp, {"name": name, "detail": detail})
        found += 1

    # ---- the base model: df is 1 at 0, positive, constant
    base = LevyDrivenSDEModel(driver=driver, x0=1.0)
    tb = sorted({0.0, 0.5, 1.0, 7.0} | {abs(float(v)) + d for v in lits for d in (0.0, 1.0, 2.0 ** -20) if abs(float(v)) < 1e9})
    for t in tb:
        inp = {"model": "base", "t": t}
        ctx.count(probe, inp, nontrivial=False)
        try:
            v = float(base.df(t))
        except Exception as e:  # noqa
            hit(inp, "src_base_df_one", {"raised": repr(e)})
            continue
        if v != 1.0:
            hit(inp, "src_base_df_one", {"what": "LevyDrivenSDEModel.df is not the constant 1", "df": v})

    # ---- the base model's sde drift is the zero vector of the state's shape; Constant ignores (t, x)
    from rpylib.model.levydrivensde.levydrivensde import Constant
    nums = sorted({0.0, 1.0, -2.5, 0.375} | {float(v) * sg for v in lits for sg in (1, -1) if abs(float(v)) < 1e9})[:24]
    for t in nums:
        for x in ([1.5], [3.0, -1.0], [0.0, 2.0, -7.25], list(nums[:4])):
            for shape in ("vector", "column"):
                xa = np.array(x, float) if shape == "vector" else np.array([x], float).T
                inp = {"model": "base", "t": t, "x": x, "state": shape}
                ctx.count(probe, inp, nontrivial=False)
                try:
                    dr = np.asarray(base.drift(t, xa))
                except Exception as e:  # noqa
                    hit(inp, "src_base_drift_zero", {"raised": repr(e)})
                    continue
                if dr.shape != xa.shape or np.any(dr != 0):
                    hit(inp, "src_base_drift_zero", {"what": "LevyDrivenSDEModel.drift is not the zero array of the state's shape",
                                                     "drift": dr.tolist()})
    for m, d, c in ((1, 1, 0.75), (2, 1, -1.5), (2, 3, 0.5), (3, 2, 2.0)):
        coef = Constant(m=m, d=d, constant=c)
        ref = None
        for t in nums[:8]:
            for x in (np.zeros((m, 1)), np.full((m, 1), 2.5), np.arange(1.0, m + 1.0).reshape(m, 1) * (1 + t)):
                inp = {"coefficient": "Constant", "m": m, "d": d, "constant": c, "t": t, "x": x.ravel().tolist()}
                ctx.count(probe, inp, nontrivial=False)
                try:
                    a = np.array(coef(t, x), float)
                except Exception as e:  # noqa
                    hit(inp, "src_constant_call_const", {"raised": repr(e)})
                    continue
                ref = a if ref is None else ref
                if a.shape != (m, d) or np.any(a != ref) or np.any(a != c):
                    hit(inp, "src_constant_call_const", {"what": "Constant(t, x) is not the constant (m, d) matrix", "value": a.tolist()})

    # ---- the two rate models
    for kind, cls, kw in (("libor", LevyLiborModel, "libor_rates"), ("forward", LevyForwardModel, "ois_rates")):
        for rates, tenors in _curves(lits):
            sigma = np.full((len(rates), 1), 0.5)
            try:
                model = cls(**{kw: list(rates)}, tenors=list(tenors), sigma=sigma, driver=driver)
            except Exception:  # noqa  (construction is not the subject)
                continue
            ts = _times(tenors, lits)
            curve = {"model": kind, "rates": list(rates), "tenors": list(tenors)}
            vals = []
            for t in ts:
                inp = dict(curve, t=t)
                ctx.count(probe, inp, nontrivial=False)
                try:
                    vals.append(float(model.df(t)))
                except Exception as e:  # noqa
                    hit(inp, f"src_{kind}_df_eq_model", {"what": "df raised inside [0, last tenor]", "raised": repr(e)})
                    vals.append(float("nan"))
            rmax = max(rates)
            # df(0) = 1, 0 < df <= 1
            if vals[0] != 1.0:
                hit(dict(curve, t=0.0), f"src_{kind}_df_zero", {"what": "df(0) != 1", "df": vals[0]})
            for t, v in zip(ts, vals):
                if math.isnan(v):
                    continue
                if not (0.0 < v <= 1.0 + 4e-16):
                    hit(dict(curve, t=t), f"src_{kind}_df_pos", {"what": "not 0 < df <= 1", "df": v})
            # non-increasing and Lipschitz (constant max rate) between consecutive mesh points: binds across every tenor
            for (s, a), (t, b) in zip(zip(ts, vals), zip(ts[1:], vals[1:])):
                if math.isnan(a) or math.isnan(b):
                    continue
                if b > a * (1 + 4e-16):
                    hit(dict(curve, s=s, t=t), f"src_{kind}_df_antitone", {"what": "df increases", "df(s)": a, "df(t)": b})
                elif abs(a - b) > rmax * (t - s) * (1 + 1e-9) + 1e-15:
                    hit(dict(curve, s=s, t=t), f"src_{kind}_df_lipschitz",
                        {"what": "df jumps: |df(s) - df(t)| > max rate * (t - s)", "df(s)": a, "df(t)": b, "allowed": rmax * (t - s)})
            # at the tenors: the product of the simple-compounding factors (exact arithmetic on the float inputs)
            acc = 1 + Fr(rates[0]) * Fr(tenors[0])
            at = {}
            for p, T in enumerate(tenors):
                if p > 0:
                    acc *= 1 + Fr(rates[p - 1]) * (Fr(tenors[p]) - Fr(tenors[p - 1]))
                at[p] = acc
                got = vals[ts.index(T)]
                if not math.isnan(got) and abs(Fr(got) * acc - 1) > Fr(1, 10 ** 12):
                    hit(dict(curve, t=T, tenor_index=p), f"src_{kind}_df_at_tenor",
                        {"what": "df at a tenor is not 1 / ((1 + x0 T0) prod (1 + x_k (T_{k+1} - T_k)))", "df": got, "expected": float(1 / acc)})
            # just after a tenor the accumulated product is kept: df(t) (1 + x_p (t - T_p)) = df(T_p) on (T_p, T_{p+1}]
            for t, v in zip(ts, vals):
                if math.isnan(v):
                    continue
                for p in range(len(tenors) - 1):
                    if tenors[p] < t <= tenors[p + 1]:
                        dTp = vals[ts.index(tenors[p])]
                        lhs = Fr(v) * (1 + Fr(rates[p]) * (Fr(t) - Fr(tenors[p])))
                        if not math.isnan(dTp) and abs(lhs - Fr(dTp)) > Fr(1, 10 ** 12):
                            hit(dict(curve, t=t, tenor_index=p), f"src_{kind}_df_after_tenor",
                                {"what": "df(t) (1 + x_p (t - T_p)) != df(T_p) on (T_p, T_{p+1}]", "df(t)": v, "df(T_p)": dTp,
                                 "df(t)*(1+x_p(t-T_p))": float(lhs)})
            if found > 20:
                return
