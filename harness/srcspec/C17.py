"""Source-derived tie for C17, second set (DESIGN.md §9.1): the path-dependent payoffs and the underlyings.

(The first tie — SPEC["C17"] in harness/srctie.py — covers five scalar `evaluate` methods.  The units below are translated into
lean/RpylibModel/Generated/SrcC17b.lean, namespace Rpylib.Src.C17b; obligations: lean/RpylibModel/ProofsGen/SrcC17b.lean.)

Translated on every run from /repo's current source:
  rpylib/product/payoff.py      Butterfly.evaluate, Barrier.__barrier_event_down / __barrier_event_up (the knock flag of the path
                                being processed: a `for` loop with `break` storing `self.barrier_event`),
                                Barrier._evaluate_knockout / _evaluate_knockin
  rpylib/product/underlying.py  Spot / LogSpot `value` and `_value_log`, Asian.value / _value_log, Performances.value / _value_log,
                                NthSpot.value / _value_log, DefaultTime.value / _value_log,
                                DefaultTimeNthUnderlying.value / _value_log, _DefaultTimes._value_log (the vector of default
                                times), NthDefaultTimes._value_log (through `super()`)
  rpylib/product/product.py     Product.__call__

Collaborators are parameters of the translated definitions (universally quantified in the theorems):
  `self._spot.value`           the inner Spot of an Asian (bound to `value` or `_value_log` by `update`): a function of (times, path
                               prefix) — `jump_path` and `payoff_underlying` are handed on unchanged, the function is closed over them
  `self.vanilla.evaluate`      the vanilla payoff inside a Barrier: any function Rat → Rat
  `self.payoff`                the payoff of a Product: any function Rat → Rat
  `np.exp`, `np.log`           abstract functions Rat → Rat (what is assumed of them is a hypothesis of each theorem)
  `np.inf`                     "no default": an abstract value `inf`
  `np.argpartition`            an abstract function; the theorems assume of its answers what numpy documents (a permutation of the
                               positions whose first k+1 entries point to values <= all the others), not which answer it picks
Paths: a one-dimensional process hands a 1-d array (`List Rat`) to Spot / LogSpot / Asian / DefaultTime and to the barrier scan;
Performances / NthSpot / DefaultTimeNthUnderlying read the (d, n+1) array of a multi-dimensional process (`List (List Rat)`).

`search(ctx, lits)`: when an obligation of ProofsGen/SrcC17b.lean no longer checks, the statements of its (B)-theorems are
evaluated on the real classes, on paths / barriers / levels / strikes built from the numeric literals of the current source of the
translated functions (and their neighbours) plus a fixed structured family.
"""
from __future__ import annotations

from harness.py2lean import Fn, Unit, INT, RAT, BOOL  # noqa: F401

LR, LLR = "List Rat", "List (List Rat)"

_VAL1 = dict(params={"times": LR, "path": LR, "jump_path": "obj", "payoff_underlying": "obj"}, ret=RAT,
             fn_params={"np.exp": "exp", "np.log": "log"})
_VALD = dict(params={"times": LR, "path": LLR, "jump_path": "obj", "payoff_underlying": "obj"},
             fn_params={"np.exp": "exp", "np.log": "log"})
_DT = dict(params={"times": LR, "path": "obj", "jump_path": LR, "payoff_underlying": "obj"}, ret=RAT,
           self_attrs={"_a": RAT}, const_exprs={"np.inf": ("inf", RAT)}, fn_params={"np.log": "log"})
_DTK = dict(params={"times": LR, "path": "obj", "jump_path": LLR, "payoff_underlying": "obj"}, ret=RAT,
            self_attrs={"_a": RAT, "_k": INT}, const_exprs={"np.inf": ("inf", RAT)}, fn_params={"np.log": "log"})
_DTS = dict(params={"times": LR, "path": "obj", "jump_path": LLR, "payoff_underlying": "obj"},
            self_attrs={"_a": LR, "_default_times_inf": LR, "_k": INT},
            opaque_fns={"np.argpartition": ("argpartition", [LR, INT], "List Int")})
_BARRIER_SCAN = dict(params={"_": "obj", "path": LR}, stores={"barrier_event": BOOL}, self_attrs={"barrier": RAT})
_BARRIER_EVAL = dict(params={"underlying": RAT}, ret=RAT, self_attrs={"barrier_event": BOOL},
                     opaque_fns={"self.vanilla.evaluate": ("vanilla_evaluate", [RAT], RAT)})

UNITS = [
    Unit("rpylib/product/payoff.py", [
        Fn("Butterfly.evaluate", params={"underlying": RAT}, ret=RAT, self_attrs={"strikes": LR}),
        Fn("Barrier.__barrier_event_down", **_BARRIER_SCAN),
        Fn("Barrier.__barrier_event_up", **_BARRIER_SCAN),
        Fn("Barrier._evaluate_knockout", **_BARRIER_EVAL),
        Fn("Barrier._evaluate_knockin", **_BARRIER_EVAL),
    ]),
    Unit("rpylib/product/underlying.py", [
        Fn("Spot.value", **_VAL1), Fn("Spot._value_log", **_VAL1),
        Fn("LogSpot.value", **_VAL1), Fn("LogSpot._value_log", **_VAL1),
        Fn("Asian.value", **{**_VAL1, "opaque_fns": {"self._spot.value": ("spot_value", [LR, LR, "_", "_"], RAT)}}),
        Fn("Asian._value_log", **{**_VAL1, "opaque_fns": {"self._spot.value": ("spot_value", [LR, LR, "_", "_"], RAT)}}),
        Fn("Performances.value", **_VALD, ret=LR, self_attrs={"spots": LR}),
        Fn("Performances._value_log", **_VALD, ret=LR, self_attrs={"log_spots": LR}),
        Fn("NthSpot.value", **_VALD, ret=RAT, self_attrs={"index": INT}),
        Fn("NthSpot._value_log", **_VALD, ret=RAT, self_attrs={"index": INT}),
        Fn("DefaultTime._value_log", **_DT), Fn("DefaultTime.value", **_DT),
        Fn("DefaultTimeNthUnderlying._value_log", **_DTK), Fn("DefaultTimeNthUnderlying.value", **_DTK),
        Fn("_DefaultTimes._value_log", **_DTS, ret=LR),
        Fn("NthDefaultTimes._value_log", **_DTS, ret=RAT),
    ]),
    Unit("rpylib/product/product.py", [
        Fn("Product.__call__", params={"underlying": RAT}, ret=RAT, self_attrs={"notional": RAT},
           opaque_fns={"self.payoff": ("payoff", [RAT], RAT)}, lean_name="Product_call"),
    ]),
]


# ---------------------------------------------------------------------------------------------------------------------
def _nums(lits, extra=()):
    out = set(extra)
    for v in lits:
        try:
            v = float(v)
        except Exception:
            continue
        if abs(v) < 1e12:
            out.update((v, -v, v + 1.0, v - 1.0, v + 2.0 ** -10, v - 2.0 ** -10, v / 2, v * 2))
    return sorted(out)


def _paths(vals):
    """spot paths (positive values): a fixed structured family + every candidate value at the start / inside / at the end"""
    fixed = [[100.0, 95.0, 101.0, 80.0], [100.0, 100.0, 100.0], [100.0], [90.0, 95.0, 100.0, 105.0, 110.0],
             [110.0, 105.0, 100.0, 95.0, 90.0], [100.0, 120.0, 100.0, 80.0, 100.0], [1.0, 2.0, 0.5, 4.0, 0.25, 8.0],
             [100.0 + ((7 * i) % 13) - 6.0 for i in range(40)], [100.0, 100.0 + 2.0 ** -20, 100.0 - 2.0 ** -20, 100.0]]
    out = list(fixed)
    for v in vals:
        if 0 < v < 1e9:
            out += [[v, v + 1, v + 2], [v + 2, v + 1, v], [v + 1, v, v + 1], [v + 1, v + 2, v + 1, v, v + 3], [v, v, v],
                    [v + 1, v + 1, v + 2.0 ** -10 + 1, v]]
    return out


def _times_for(n, vals):
    """time grids with n dates: 0 = t_0 < .. < t_n (uniform, uneven), t_0 > 0, literal-sized steps"""
    if n == 1:
        return [[1.0], [0.5]] + [[v] for v in vals if 0 < v < 1e6][:4]
    grids = [[i / (n - 1) for i in range(n)], [2.0 * (i / (n - 1)) ** 2 for i in range(n)], [0.25 + i for i in range(n)],
             [sum((1 + (j % 3)) / 365.0 for j in range(i)) for i in range(n)]]
    for v in vals:
        if 0 < v < 1e6:
            grids.append([v * i for i in range(n)])
            grids.append([v + i for i in range(n)])
    return grids[:10]


def search(ctx, lits):
    import math
    from fractions import Fraction as Fr
    import numpy as np
    from rpylib.process.process import ProcessRepresentation as PR
    from rpylib.product import payoff as po
    from rpylib.product import underlying as un
    from rpylib.product.product import Product

    found = [0]

    def fail(name, inp, detail):
        found[0] += 1
        ctx.fail("oracle", "c17.src.search." + name, inp, {"name": name, "detail": detail})

    def close(a, b, sc=1.0):
        a, b = float(a), float(b)
        if math.isinf(a) or math.isinf(b):
            return a == b
        return abs(a - b) <= 1e-9 * max(1.0, abs(a), abs(b), sc)

    def guarded(name, inp, f):
        ctx.count("c17.src.search", inp, nontrivial=False)
        try:
            r = f()
        except Exception as e:     # the identities are total on these inputs: an exception is a failure of the implementation
            fail(name, inp, {"raised": repr(e)})
            return
        if r is not None:
            fail(name, inp, r)

    vals = _nums(lits, (0.0, 0.5, 1.0, 2.0, 90.0, 100.0, 110.0))
    pos = [v for v in vals if v > 0]
    paths = _paths(pos)[:260]

    # ---- butterfly = call(K1) - 2 call(K2) + call(K3); notional scales linearly -------------------------------------
    ks = sorted(set(pos))[:14]
    us = [v for v in vals if abs(v) < 1e9][:80]
    call = lambda k, u: float(po.Vanilla(k, po.PayoffType.CALL).evaluate(u))
    for i, k1 in enumerate(ks):
        for k2 in ks[i + 1:]:
            for k3 in [k for k in ks if k > k2][:4]:
                for u in us:
                    inp = {"underlying": u, "strikes": [k1, k2, k3]}

                    def f():
                        b = float(po.Butterfly(k1, k2, k3).evaluate(u))
                        c = call(k1, u) - 2 * call(k2, u) + call(k3, u)
                        if not close(b, c, max(abs(u), k3)):
                            return {"butterfly": b, "call_combination": c}
                    guarded("butterfly", inp, f)
        if found[0] > 20:
            return
    for n in [v for v in vals if abs(v) < 1e6][:30]:
        for c in (2.0, -1.0, 0.5, 3.0):
            for u in (90.0, 100.0, 123.25):
                inp = {"notional": n, "factor": c, "underlying": u, "strike": 100.0}

                def f():
                    pay = po.Vanilla(100.0, po.PayoffType.PUT)
                    a = float(Product(un.Spot(), pay, 1.0, notional=c * n)(u))
                    b = float(Product(un.Spot(), pay, 1.0, notional=n)(u))
                    if not close(a, c * b) or not close(b, n * float(pay(u))):
                        return {"product(c*n)": a, "c*product(n)": c * b, "n*payoff": n * float(pay(u))}
                guarded("notional", inp, f)

    # ---- barrier flag = some value strictly beyond the barrier, whatever was processed before; KI + KO = vanilla ------
    for path in paths:
        bars = sorted({b for x in path[:6] for b in (x, x + 2.0 ** -10, x - 2.0 ** -10)} | {min(path) - 1.0, max(path) + 1.0})
        for B in bars[:12]:
            for down in (True, False):
                for before in (None, [B - 5.0, B + 5.0]):
                    inp = {"path": path, "barrier": B, "direction": "down" if down else "up", "processed_before": before}

                    def f():
                        t_in = po.BarrierType.DOWN_AND_IN if down else po.BarrierType.UP_AND_IN
                        t_out = po.BarrierType.DOWN_AND_OUT if down else po.BarrierType.UP_AND_OUT
                        ki = po.Barrier(100.0, po.PayoffType.CALL, t_in, B)
                        ko = po.Barrier(100.0, po.PayoffType.CALL, t_out, B)
                        if before is not None:
                            ki.process(None, np.array(before))
                        ki.process(None, np.array(path))
                        ko.process(None, np.array(path))
                        want = any(v < B for v in path) if down else any(v > B for v in path)
                        if bool(ki.barrier_event) != want or bool(ko.barrier_event) != want:
                            return {"flag_in": bool(ki.barrier_event), "flag_out": bool(ko.barrier_event), "crossed": want}
                        for u in (path[-1], 150.0):
                            van = float(po.Vanilla(100.0, po.PayoffType.CALL).evaluate(u))
                            a, b = float(ki.evaluate(u)), float(ko.evaluate(u))
                            if not close(a + b, van) or not close(b, 0.0 if want else van):
                                return {"underlying": u, "knock_in": a, "knock_out": b, "vanilla": van, "crossed": want}
                    guarded("barrier", inp, f)
        if found[0] > 20:
            return

    for path, B in (([100.0, 95.0, 101.0, 80.0], 90.0), ([100.0, 95.0, 101.0, 91.0], 90.0)):
        for u in us:
            for ptype in (po.PayoffType.CALL, po.PayoffType.PUT):
                for K in (100.0, u, u - 1.0):
                    inp = {"path": path, "barrier": B, "underlying": u, "strike": K, "payoff_type": ptype.name}

                    def f():
                        ki = po.Barrier(K, ptype, po.BarrierType.DOWN_AND_IN, B)
                        ko = po.Barrier(K, ptype, po.BarrierType.DOWN_AND_OUT, B)
                        ki.process(None, np.array(path))
                        ko.process(None, np.array(path))
                        crossed = any(v < B for v in path)
                        van = float(po.Vanilla(K, ptype).evaluate(u))
                        a, b = float(ki.evaluate(u)), float(ko.evaluate(u))
                        if not close(a + b, van, abs(u)) or not close(b, 0.0 if crossed else van, abs(u)):
                            return {"knock_in": a, "knock_out": b, "vanilla": van, "crossed": crossed}
                    guarded("barrier_eval", inp, f)
    if found[0] > 20:
        return

    # ---- Asian: the time-weighted average (exact reference), constant path, between the extremes, both representations --
    for path in paths:
        n = len(path)
        for times in _times_for(n, pos[:6]):
            if times[-1] <= 0:
                continue
            inp = {"times": times, "path": path}

            def f():
                a = un.Asian()
                v = float(a.value(np.array(times), np.array(path), None))
                ref, last = Fr(0), Fr(0)
                for t, s in zip(times, path):
                    ref, last = ref + Fr(s) * (Fr(t) - last), Fr(t)
                ref = float(ref / last)
                if not close(v, ref, max(path)):
                    return {"asian": v, "weighted_average": ref}
                if not (min(path) - 1e-9 * max(path) <= v <= max(path) * (1 + 1e-9)):
                    return {"asian": v, "min": min(path), "max": max(path)}
                c = float(a.value(np.array(times), np.array([path[0]] * n), None))
                if not close(c, path[0]):
                    return {"asian_of_constant_path": c, "constant": path[0]}
                p = Product(un.Asian(), po.Forward(0.0), times[-1])
                p.update(PR.LOG)
                lv = float(p.underlying_value(np.array(times), np.log(np.array(path)), np.log(np.array(path))))
                p.update(PR.IDENDITY)
                iv = float(p.underlying_value(np.array(times), np.array(path), np.array(path)))
                if not close(lv, v, max(path)) or not close(iv, v, max(path)):
                    return {"asian": v, "log_representation": lv, "identity_again": iv}
            guarded("asian", inp, f)
        if found[0] > 20:
            return

    # ---- default times: the date after the first log-jump-ratio below the level, inf otherwise ---------------------
    levels = sorted({-abs(v) for v in vals if 0 < abs(v) < 50} | {-0.5, -0.1, -1.0})[:16]
    for a in levels:
        ratio_sets = [[a / 2, a / 3, a / 4], [a - 2.0 ** -10, a / 2, a * 2], [a / 2, a, a + 2.0 ** -20, a - 2.0 ** -20],
                      [a / 2, a / 2, a * 3], [a * 2], [a / 2], [0.1, -0.1, a * 1.5, 0.3, a * 4], [a] * 4,
                      [a / 2] * 12 + [a * 2, a / 2, a * 2]]
        for ratios in ratio_sets:
            logj = [0.0]
            for r in ratios:
                logj.append(logj[-1] + r)
            times = [0.25 * i * (1 + (i % 2)) for i in range(len(logj))]
            inp = {"level": a, "log_jump_path": logj, "times": times}

            def f():
                d = np.diff(np.array(logj))
                hit = [k for k in range(len(d)) if d[k] < a]
                want = times[hit[0] + 1] if hit else math.inf
                u = un.DefaultTime(a)
                got = float(u._value_log(np.array(times), None, np.array(logj)))
                if got != want:
                    return {"default_time_log": got, "first_passage": want}
                un2 = un.DefaultTimeNthUnderlying([a * 3, a], 2)
                other = [0.0] * len(logj)
                got2 = float(un2._value_log(np.array(times), None, np.array([other, logj])))
                if got2 != want:
                    return {"default_time_nth_log": got2, "first_passage": want}
                # identity representation: same jump path given as exp(.) (agreement up to rounding at an exact tie)
                margin = min((abs(x - a) for x in d), default=1.0)
                if margin > 1e-9:
                    got3 = float(u.value(np.array(times), None, np.exp(np.array(logj))))
                    got4 = float(un2.value(np.array(times), None, np.exp(np.array([other, logj]))))
                    if got3 != want or got4 != want:
                        return {"default_time_identity": got3, "default_time_nth_identity": got4, "first_passage": want}
            guarded("default_time", inp, f)
        if found[0] > 20:
            return

    # ---- vector of default times = the individual first passages; n-th to default = the n-th smallest, non-decreasing in n --
    for a in levels[:8]:
        rows_sets = [[[a / 2, a * 2, a / 2], [a / 2, a / 2, a / 2], [a * 3, a / 2, a * 2]],
                     [[a / 2, a / 2, a * 2, a / 2], [a * 2, a / 2, a / 2, a / 2], [a / 2, a * 2, a / 2, a * 2], [a, a, a, a]],
                     [[a * 2], [a / 2]], [[a / 2, a / 3]] * 3, [[a / 2, a * 2 * (1 + i % 2), a / 3, a * 2] for i in range(5)]]
        for ratio_rows in rows_sets:
            logj = [[0.0] + list(np.cumsum(r)) for r in ratio_rows]
            d = len(logj)
            times = [0.5 * i + 0.125 * (i % 3) for i in range(len(logj[0]))]
            lv = [a * (1 + 0.5 * (i % 2)) for i in range(d)]
            inp = {"levels": lv, "log_jump_paths": logj, "times": times}

            def f():
                want = []
                for row, l in zip(logj, lv):
                    dd = np.diff(np.array(row))
                    hit = [k for k in range(len(dd)) if dd[k] < l]
                    want.append(times[hit[0] + 1] if hit else math.inf)
                prev = -math.inf
                for n in range(1, d + 1):
                    u = un.NthDefaultTimes(lv, n)
                    vec = [float(v) for v in un._DefaultTimes._value_log(u, np.array(times), None, np.array(logj), None)]
                    if vec != want:
                        return {"default_times": vec, "first_passages": want}
                    got = float(u._value_log(np.array(times), None, np.array(logj)))
                    if got != sorted(want)[n - 1] or got < prev:
                        return {"n": n, "nth_default": got, "nth_smallest": sorted(want)[n - 1], "previous": prev}
                    prev = got
            guarded("nth_default", inp, f)
        if found[0] > 20:
            return

    # ---- Spot / LogSpot / NthSpot / Performances: identity on exp(x) = log implementation on x -----------------------
    for path in paths[:120]:
        x = np.log(np.array(path))
        rows = np.array([path, list(reversed(path))])
        lrows = np.log(rows)
        inp = {"path": path}

        def f():
            tm = np.arange(len(path), dtype=float)
            s, ls = un.Spot(), un.LogSpot()
            if not close(s.value(tm, np.array(path), None), path[-1]) or not close(s._value_log(tm, x, None), path[-1]):
                return {"spot": float(s.value(tm, np.array(path), None)), "spot_log": float(s._value_log(tm, x, None)), "last": path[-1]}
            if not close(ls.value(tm, np.array(path), None), x[-1]) or not close(ls._value_log(tm, x, None), x[-1]):
                return {"logspot": float(ls.value(tm, np.array(path), None)), "logspot_log": float(ls._value_log(tm, x, None))}
            for i in (1, 2):
                ns = un.NthSpot(i)
                if not close(ns.value(tm, rows, None), rows[i - 1][-1]) or not close(ns._value_log(tm, lrows, None), rows[i - 1][-1]):
                    return {"nthspot": float(ns.value(tm, rows, None)), "nthspot_log": float(ns._value_log(tm, lrows, None)),
                            "expected": float(rows[i - 1][-1]), "index": i}
            s0 = [path[0], 2.0 * path[0]]
            pf = un.Performances(s0)
            a, b = pf.value(tm, rows, None), pf._value_log(tm, lrows, None)
            want = [rows[0][-1] / s0[0], rows[1][-1] / s0[1]]
            if not all(close(a[j], want[j]) and close(b[j], want[j]) for j in range(2)):
                return {"performances": [float(v) for v in a], "performances_log": [float(v) for v in b], "expected": want}
        guarded("representations", inp, f)
        if found[0] > 20:
            return
