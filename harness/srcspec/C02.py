"""Source-derived tie for C02 (state samplers): which functions of /repo are translated to Lean, and the directed search.

Translated (PyLite 3: `while` loops with fuel, `while True .. break` as a do-while, deques as lists, numpy vector scaling,
`int(float)`, list repetition / concatenation, `x & (2^k - 1)`):
  alias.py                     AliasMethod._draw_with_u, create_alias
  binarysearchtree.py          BinarySearchTree.sample_with_u, create_binary_search_tree
  binarysearchtreeadapted.py   BinarySearchTreeAdapted1D.sample_with_u
  samplingfactory.py           create_vec_jump_matrix
  table.py                     _sample_one, create_table (view: slot layout and residuals)
Everything read from objects is a parameter of the translated definition (tables `q`, `J`, `bst`, the axis, the callable
`states`, the memoised `_compute_probability`, the 32 random bits), universally quantified in the theorems of
lean/RpylibModel/ProofsGen/SrcC02.lean.

Not translated (outside PyLite, the behavioural correspondence of harness/props/c02.py remains their only tie):
  huffmantree.py (tree of Node objects, `bisect` on a parallel list, `list.insert`), inversion.py `sample_with_u` (mutates
  deques stored on `self`, walrus assignment, `break`, a stateful collaborator `StatesManager`), the n-dimensional
  BinarySearchTreeAdapted (dicts, `zip(*..)`, `Coordinates` objects, numpy fancy indexing `us[positions] -= ..`),
  the tail of create_table (constructs an AliasMethod object), samplingfactory.compute_intensity_of_jumps / create_q_vector
  (grid objects, `product(*intervals)`; the rates are C01's subject).
"""
from __future__ import annotations

from harness.py2lean import Fn, Unit, INT, RAT, BOOL  # noqa: F401

LR, LI = "List Rat", "List Int"

UNITS = [
    Unit("rpylib/distribution/variate/alias.py", [
        Fn("AliasMethod._draw_with_u", params={"uniform": RAT}, ret=INT,
           self_attrs={"K": INT, "q": LR, "J": LI}),
        Fn("create_alias", params={"probabilities": LR}, ret="List Int × List Rat", err="(([] : List Int), ([] : List Rat))",
           opts={"loop_fuel": "List.length probabilities", "empty_type": LI,
                 "np_arrays": ["probabilities"], "sorted_state": "definition"}),
    ]),
    Unit("rpylib/distribution/variate/binarysearchtree.py", [
        Fn("BinarySearchTree.sample_with_u", params={"u": RAT}, ret=INT, err="(-1 : Int)",
           self_attrs={"K": INT, "bst": LR}, opaque_fns={"self.states": ("states", [INT], INT)},
           opts={"loop_fuel": "Int.toNat self_K + 1", "counters": ["self.sampling_cost"], "sorted_state": "definition"}),
        Fn("create_binary_search_tree", params={"probabilities": LR}, ret=LR, err="([] : List Rat)",
           opts={"loop_fuel": "2 * List.length probabilities", "empty_type": LI, "sorted_state": "definition"}),
    ]),
    Unit("rpylib/distribution/variate/binarysearchtreeadapted.py", [
        Fn("BinarySearchTreeAdapted1D.sample_with_u", params={"u": RAT}, ret=INT, err="(0 : Int)",
           self_attrs={"axis": LR, "_coordinates_left_axis": "Int × Int", "_coordinates_right_axis": "Int × Int",
                       "_proba_left_axis": RAT, "origin_coordinate": INT},
           opaque_fns={"self._compute_probability": ("compute_probability", [RAT, RAT], RAT)},
           opts={"loop_fuel": "List.length self_axis", "sorted_state": "definition"}),
    ]),
    Unit("rpylib/distribution/samplingfactory.py", [
        Fn("create_vec_jump_matrix", params={"q_vector": LR, "init_state": "obj", "intensity_of_jumps": RAT}, ret=LR,
           const_exprs={"init_state.value": ("init_state", INT)}, opts={"np_arrays": ["q_vector"]}),
    ]),
    Unit("rpylib/distribution/variate/table.py", [
        Fn("_sample_one", params={"J": LI, "alias_method": "obj", "cst": RAT, "states": "fn:Int → Int"}, ret=INT,
           const_calls={"random.getrandbits(32)": ("bits", INT)},
           opaque_fns={"alias_method._draw_with_u": ("alias_draw", [RAT], INT)}),
        # a view of `create_table`: the slot layout and the residuals (the function then hands `thetas / sum` to the
        # AliasMethod constructor - an object, outside PyLite - or raises when the sum is 0)
        Fn("create_table#slots", lean_name="create_table_slots", params={"probabilities": LR},
           block=("ks = np.empty", "sum_probabilities = sum(thetas)"), result="J, thetas, sum_probabilities",
           ret="List Int × List Rat × Rat", opts={"empty_type": LI, "sorted_state": "definition"}),
    ]),
]


# ---------------------------------------------------------------------------------------------------------------------
# directed search (run only when an obligation of ProofsGen/SrcC02.lean no longer checks): the identities the (B)-theorems
# state, evaluated on the REAL implementation, on inputs built from the numeric literals of the current source of the
# translated functions (vector lengths, entries, uniforms, random bits) and their neighbours, plus a fixed structured family.
# Every identity is the property's: "the set of uniforms sent to k has total length p_k", "never a state of probability 0 /
# the origin / outside the grid" — computed from the implementation's own answers at the midpoints of the cells its tables
# induce, never from what an older version of the code returned.
def _vectors(lits):
    import itertools
    ints = sorted({int(v) for l in lits if isinstance(l, int) and not isinstance(l, bool) for v in (l - 1, l, l + 1) if 1 <= v <= 600})
    flts = sorted({float(v) for l in lits if isinstance(l, float) for v in (l, l / 2, 1 - l) if 0 < v < 1})
    lens = sorted(set(ints) | {1, 2, 3, 4, 5, 7, 8, 16, 33, 64, 100, 255, 256, 257})
    out = []
    for n in lens:
        out.append(("uniform", [1.0 / n] * n))
        if n >= 2:
            out.append(("dominant", [1 - (n - 1) * 2.0 ** -12] + [2.0 ** -12] * (n - 1)))
            out.append(("last-dominant", [2.0 ** -12] * (n - 1) + [1 - (n - 1) * 2.0 ** -12]))
            z = [0.0 if i % 2 else 2.0 / (n + n % 2) for i in range(n)]
            out.append(("zeros", z))
            w = [float(i + 1) for i in range(n)]
            out.append(("ramp", [x / sum(w) for x in w]))
            g = [2.0 ** -(i + 1) for i in range(min(n, 40))] + [0.0] * max(0, n - 40)
            g[0] += 1 - sum(g)
            out.append(("geometric", g))
            out.append(("one-hot", [0.0] * (n - 1) + [1.0]))
            out.append(("one-hot-first", [1.0] + [0.0] * (n - 1)))
        if n >= 3:
            out.append(("ties", [0.25, 0.25] + [0.5 / (n - 2)] * (n - 2)))
            out.append(("dyadic", [0.5, 0.25] + [0.25 / (n - 2)] * (n - 2)))
    for f in flts[:12]:
        out.append(("literal-entry", [f, 1 - f]))
        out.append(("literal-entry3", [f / 2, 1 - f, f / 2]))
        out.append(("literal-entry-zero", [f, 0.0, 1 - f]))
    return out, flts, ints


def _law_from_cells(draw, cells, n):
    """Riemann-exact law of the implementation: `cells` = (lo, hi) intervals on which the draw is constant by construction of
    the implementation's own tables; the state of a cell is asked at its midpoint"""
    law = [0.0] * n
    bad = None
    for lo, hi in cells:
        if hi - lo <= 0:
            continue
        k = int(draw(0.5 * (lo + hi)))
        if 0 <= k < n:
            law[k] += hi - lo
        else:
            bad = (0.5 * (lo + hi), k)
    return law, bad


def search(ctx, lits):
    import logging
    logging.disable(logging.CRITICAL)         # create_table logs an error for every vector it refuses (known finding)
    try:
        _search(ctx, lits)
    finally:
        logging.disable(logging.NOTSET)


def _search(ctx, lits):
    import numpy as np
    from rpylib.distribution.variate.alias import AliasMethod
    from rpylib.distribution.variate.binarysearchtree import BinarySearchTree
    from rpylib.distribution.variate.binarysearchtreeadapted import BinarySearchTreeAdapted1D
    from rpylib.distribution.variate import table as tablemod
    from rpylib.distribution.samplingfactory import create_vec_jump_matrix

    P = "c02.src.search"
    vectors, flts, ints = _vectors(lits)
    us_extra = sorted({float(v) for l in lits if isinstance(l, (int, float)) and not isinstance(l, bool)
                       for v in (l, l - 2.0 ** -30, l + 2.0 ** -30, l / 2, l / 256.0, l / 2.0 ** 32) if 0 <= v <= 1 - 2.0 ** -20} | {0.0, 0.5, 1 - 2.0 ** -20})
    # (uniforms within a few ulps of 1 lie above the FLOAT sum of p: a rounding sliver, outside the exact-arithmetic statement)
    found = [0]

    def ident(k):
        return k

    def report(name, inp, detail):
        ctx.fail("oracle", P, inp, {"name": name, "detail": detail})
        found[0] += 1

    def check_law(name, kind, p, draw, cells, extra_us):
        n = len(p)
        inp = {"sampler": name, "vector": kind, "p": [float(x) for x in p] if n <= 12 else {"n": n, "head": [float(x) for x in p[:6]]}}
        ctx.count(P, inp, nontrivial=False)
        try:
            law, bad = _law_from_cells(draw, cells, n)
            if bad is not None:
                report(name + ".state-outside", inp, {"u": bad[0], "state": bad[1]})
                return
            worst = max(range(n), key=lambda k: abs(law[k] - p[k]))
            if abs(law[worst] - p[worst]) > 1e-9:
                report(name + ".law", inp, {"state": worst, "length_of_uniforms_sent_to_it": law[worst], "p": float(p[worst])})
                return
            for u in extra_us:
                k = int(draw(u))
                if not 0 <= k < n:
                    report(name + ".state-outside", inp, {"u": u, "state": k})
                    return
                if p[k] == 0.0:
                    report(name + ".zero-probability-state", inp, {"u": u, "state": k})
                    return
        except Exception as e:  # the sampler raised on a probability vector
            report(name + ".raised", inp, {"raised": repr(e)})

    for kind, p in vectors:
        if found[0] > 12:
            return
        n = len(p)
        pa = np.array(p, dtype=float)
        # ---- alias: construction + lookup ------------------------------------------------------------------------------
        try:
            s = AliasMethod(pa, ident)
            K, q, J = int(s.K), [float(x) for x in s.q], [int(x) for x in s.J]
            cells = []
            for x in range(K):
                c = min(1.0, max(0.0, q[x]))
                cells += [(x / K, (x + c) / K), ((x + c) / K, (x + 1) / K)]
            extra = [x / K for x in range(K)][:300] + [u for u in us_extra]
            check_law("alias", kind, p, s._draw_with_u, cells, extra)
        except Exception as e:
            report("alias.raised", {"sampler": "alias", "vector": kind, "n": n}, {"raised": repr(e)})
        # ---- binary search tree: lookup on the implementation's own thresholds -----------------------------------------
        if n >= 2:
            try:
                b = BinarySearchTree(pa, ident)
                thr = sorted({0.0, 1.0} | {float(t) for t in b.bst if 0 < float(t) < 1})
                cells = list(zip(thr[:-1], thr[1:]))
                extra = [t for t in thr[:-1] if t < 1 - 1e-9][:300] + list(us_extra)   # (a threshold ~1 is the float sum of p)
                check_law("bst", kind, p, b.sample_with_u, cells, extra)
            except Exception as e:
                report("bst.raised", {"sampler": "bst", "vector": kind, "n": n}, {"raised": repr(e)})
        # ---- table: 256 slots + residual alias, as a function of the 32 random bits ----------------------------------
        if n <= 300:
            try:
                t = tablemod.TableMethod(pa, ident)
            except ValueError:
                t = None          # all entries multiples of 1/256: known finding C02-table-all-multiples-of-1-256, not judged here
            except Exception as e:
                t = None
                report("table.raised", {"sampler": "table", "vector": kind, "n": n}, {"raised": repr(e)})
            if t is not None:
                inp = {"sampler": "table", "vector": kind, "p": [float(x) for x in p] if n <= 12 else {"n": n}}
                ctx.count(P, inp, nontrivial=False)
                saved = tablemod.random.getrandbits
                try:
                    def one(bits):
                        tablemod.random.getrandbits = lambda nb, _b=bits: _b
                        return int(tablemod._sample_one(t.J, t.alias_method, t._cst, ident))
                    law = [0.0] * n
                    minus = [b_ for b_ in range(256) if one(b_) != one(b_ + 256 * 0xABCDE) or t.J[b_] < 0]
                    ok = True
                    for b_ in range(256):
                        if b_ in minus:
                            continue
                        k = one(b_)
                        for hi in (1, 0xFFFFFF, 0x800000):        # the high bits must not matter for a direct slot
                            if one(b_ + 256 * hi) != k:
                                report("table.slot-depends-on-high-bits", inp, {"slot": b_, "bits": b_ + 256 * hi}); ok = False
                        if not 0 <= k < n or p[k] == 0.0:
                            report("table.zero-probability-or-outside-state", inp, {"bits": b_, "state": k}); ok = False
                        else:
                            law[k] += 1 / 256
                    if minus and ok:
                        a = t.alias_method
                        Ka, qa = int(a.K), [float(x) for x in a.q]
                        b0 = minus[0]
                        for x in range(Ka):
                            c = min(1.0, max(0.0, qa[x]))
                            for lo, hi in ((x / Ka, (x + c) / Ka), ((x + c) / Ka, (x + 1) / Ka)):
                                if hi - lo < 2.0 ** -18:
                                    continue
                                m = int(0.5 * (lo + hi) * 2 ** 24)
                                k = one(b0 + 256 * m)
                                if not 0 <= k < n or p[k] == 0.0:
                                    report("table.zero-probability-or-outside-state", inp, {"bits": b0 + 256 * m, "state": k}); ok = False
                                else:
                                    law[k] += (hi - lo) * len(minus) / 256
                    if ok:
                        worst = max(range(n), key=lambda k: abs(law[k] - p[k]))
                        if abs(law[worst] - p[worst]) > 2.0 ** -16 * (2 * n + 4):
                            report("table.law", inp, {"state": worst, "mass_of_bits_sent_to_it": law[worst], "p": float(p[worst])})
                except Exception as e:
                    report("table.raised", inp, {"raised": repr(e)})
                finally:
                    tablemod.random.getrandbits = saved
    # ---- one-dimensional adapted bisection on a scripted additive mass (F = a cumulative function of the axis value) --------
    for n, o in [(5, 2), (7, 3), (9, 2), (12, 7), (33, 16)] + [(m, m // 2) for m in ints if 5 <= m <= 200][:6]:
        if found[0] > 12:
            return
        axis = [float(i - o) * 0.25 for i in range(n)]
        w = [0.0 if i == o else (1.0 + (i * 7) % 5) for i in range(n)]
        if n > 6:
            w[1] = 0.0
            w[n - 2] = 0.0
        tot = sum(w)
        w = [x / tot for x in w]
        edges = [axis[0]] + [0.5 * (axis[i] + axis[i + 1]) for i in range(n - 1)] + [axis[-1]]   # arithmetic-midpoint cells

        def F(x, _e=edges, _w=w):
            acc = 0.0
            for i in range(len(_w)):
                if x >= _e[i + 1]:
                    acc += _w[i]
                elif x > _e[i]:
                    acc += _w[i] * (x - _e[i]) / (_e[i + 1] - _e[i])
            return acc
        smp = BinarySearchTreeAdapted1D.__new__(BinarySearchTreeAdapted1D)
        smp.axis, smp.origin_coordinate = axis, o
        smp._coordinates_left_axis, smp._coordinates_right_axis = (0, o - 1), (o + 1, n - 1)
        smp._proba_left_axis = sum(w[:o])
        smp._compute_probability = lambda a, b, _F=F: _F(b) - _F(a)
        smp.sampling_cost = 0
        cum = [0.0]
        for x in w:
            cum.append(cum[-1] + x)
        inp = {"sampler": "adapted1d", "axis_points": n, "origin": o, "w": w if n <= 12 else {"n": n}}
        ctx.count(P, inp, nontrivial=False)
        try:
            law = [0.0] * n
            for i in range(n):
                if cum[i + 1] - cum[i] > 1e-12:
                    k = int(smp.sample_with_u(0.5 * (cum[i] + cum[i + 1]))) + o
                    if not 0 <= k < n or k == o:
                        report("adapted1d.origin-or-outside", inp, {"u": 0.5 * (cum[i] + cum[i + 1]), "index": k})
                        break
                    law[k] += cum[i + 1] - cum[i]
            else:
                worst = max(range(n), key=lambda k: abs(law[k] - w[k]))
                if abs(law[worst] - w[worst]) > 1e-9:
                    report("adapted1d.law", inp, {"index": worst, "length_of_uniforms_sent_to_it": law[worst], "p": w[worst]})
                for u in list(us_extra) + [c for c in cum[1:-1]]:
                    if not 0 < u < 1:
                        continue
                    k = int(smp.sample_with_u(u)) + o
                    if not 0 <= k < n or k == o:
                        report("adapted1d.origin-or-outside", inp, {"u": u, "index": k})
                        break
                    if w[k] == 0.0 and min(abs(u - c) for c in cum) > 1e-9:
                        report("adapted1d.zero-probability-state", inp, {"u": u, "index": k})
                        break
        except Exception as e:
            report("adapted1d.raised", inp, {"raised": repr(e)})
    # ---- the factory's jump vector ------------------------------------------------------------------------------------------
    class _State:
        def __init__(self, v):
            self.value = v
    for n in [3, 5, 8, 33] + [m for m in ints if 3 <= m <= 300][:8]:
        for o in sorted({0, 1, n // 2, n - 1}):
            qv = [0.5 + ((3 * i) % 7) for i in range(n)]
            lam = sum(qv) - qv[o]
            inp = {"function": "create_vec_jump_matrix", "n": n, "origin": o}
            ctx.count(P, inp, nontrivial=False)
            try:
                res = [float(x) for x in create_vec_jump_matrix(np.array(qv, dtype=float), _State(o), lam)]
                if len(res) != n or res[o] != 0.0 or abs(sum(res) - 1) > 1e-9 or any(
                        abs(res[k] - qv[k] / lam) > 1e-12 for k in range(n) if k != o):
                    report("jump-vector", inp, {"result": res if n <= 12 else res[:8], "expected_origin": 0.0, "sum": sum(res)})
            except Exception as e:
                report("jump-vector.raised", inp, {"raised": repr(e)})
