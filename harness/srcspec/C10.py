"""Source-derived tie for C10, SECOND set (DESIGN.md §9; the first set — the four drift conversions of `LevyTriplet` — is SPEC["C10"] in
harness/srctie.py and is untouched).  The units below are translated on every run from /repo's current source into
lean/RpylibModel/Generated/SrcC10b.lean (namespace Rpylib.Src.C10b); obligations: lean/RpylibModel/ProofsGen/SrcC10b.lean, audit list
lean/Audit/C10Srcb.lean, algebra lemma lean/RpylibModel/Lemmas/SrcC10Vg.lean.

  rpylib/model/levymodel/mixed/hem.py               _HEMCumulant.cumulant1/2/4/6; _HEMLevyMeasure.integrate_against_x/_xx (again, from the
                                                    current source); the constructor of HEMModel from `a = ..` to `super().__init__(..)`;
                                                    HEMModel.levy_exponent_pure_jump at a real argument; the cached `_xi`
                                                    (HEMParameters.__init__, .initialisation); ExponentialOfHEMModel._process_drift
  rpylib/model/levymodel/mixed/merton.py            _MertonCumulant.cumulant1/2/4/6; the constructor of MertonModel; levy_exponent_pure_jump;
                                                    ExponentialOfMertonModel._process_drift
  rpylib/model/levymodel/purejump/variancegamma.py  _VGCumulant.cumulant1/2/4; VGParameters.__init__ / .initialisation (derived c, lambda_p,
                                                    lambda_m); _VGLevyMeasure.integrate_against_x/_xx; the constructor of VarianceGammaModel
  rpylib/model/levymodel/purejump/cgmy.py           _CGMYCumulant.cumulant1/2/4/6; the constructor of CGMYModel; the closed-form (straddling)
                                                    branch of _CGMYLevyMeasure.integrate_against_xx
  rpylib/model/levymodel/mixed/blackscholes.py      _BlackScholesCumulant.cumulant1..6; BlackScholesParameters.__init__ / .initialisation (cached
                                                    variance); the constructor of PureDiffusiveModel; BlackScholesModel.process_drift
  rpylib/model/levymodel/exponentialoflevymodel.py  ExponentialOfLevyModel.drift; `self.omega = ..` of the constructor; the drift inside
                                                    log_characteristic_function

Collaborators (parameters of the translated definitions, universally quantified in the theorems): np.exp, np.sqrt, scipy.special.gamma,
scipy.special.gammainc, `**` with a real exponent (functions exp, sqrt, gamma, gammainc, rpow); `a == -np.inf` / `b == np.inf` (Booleans);
`levy_model.levy_exponent(x=-1j).real` (the rational psi_minus_i); the constructor calls `LevyTriplet(a=, sigma=, nu=, representation=)` and
`_XCumulant(drift=, parameters=)` are read as the records (a, sigma, representation) / drift (`opts["records"]`), enum members as integer codes.
The cumulant methods, levy_exponent_pure_jump and drift() are translated with `fixed_binders` (every declared attribute is a binder, read or
not) so that a rewrite which adds / drops a read keeps the signature the obligations are stated against.

Not translated (outside PyLite): `LevyModel.levy_exponent` and the exponents of VG / CGMY (complex arithmetic, log), the Merton measure
(`erf`, nested function definitions), `CGMY.integrate_against_x` (exp1 / incomplete gamma through a private static method),
`HEMModel.process_drift` of the plain model (disagrees with its triplet drift: DESIGN.md §8.4, deliberately not judged).

`search(ctx, lits)`: see the comment above `REL`.
"""
from __future__ import annotations

from harness.py2lean import Fn, Unit, INT, RAT, BOOL  # noqa: F401

_HEMP = {"parameters.intensity": RAT, "parameters.p": RAT, "parameters.eta1": RAT, "parameters.eta2": RAT,
         "parameters.sigma": RAT, "drift": RAT}
_FB = {"fixed_binders": True}      # the signature lists every declared collaborator, read or not
_HEM_CUM = dict(params={"t": RAT}, ret=RAT, self_attrs=_HEMP, opts=_FB)
_HEM_PAR = {"parameters.intensity": ("intensity", RAT), "parameters.p": ("p", RAT), "parameters.eta1": ("eta1", RAT),
            "parameters.eta2": ("eta2", RAT), "parameters.sigma": ("sigma", RAT), "parameters._xi": ("xi", RAT)}
_HEM_INT = dict(params={"a": RAT, "b": RAT}, ret=RAT, err="(0 : Rat)", fuel="2",
                self_attrs={"parameters.intensity": RAT, "parameters.p": RAT, "parameters.eta1": RAT, "parameters.eta2": RAT},
                const_exprs={"a==-np.inf": ("a_is_neg_inf", BOOL), "b==np.inf": ("b_is_pos_inf", BOOL)},
                fn_params={"np.exp": "exp"})

# the enum members as integer codes (only compared with each other)
_REP = {"LevyRepresentation.ZERO": ("(0 : Int)", INT), "LevyRepresentation.CENTER": ("(1 : Int)", INT),
        "LevyRepresentation.ONEONE": ("(2 : Int)", INT), "LevyRepresentation.TILDE": ("(3 : Int)", INT)}
_TRIPLET = [("a", RAT), ("sigma", RAT), ("representation", INT)]

_MODEL_TYPE = {f"ModelType.{n}": (f"({k} : Int)", INT) for k, n in enumerate(["BLACKSCHOLES", "HEM", "MERTON", "VG", "CGMY"])}
_CTOR = dict(ctor=["model_type", "levy_triplet", "cumulant"], ret="Int × (Rat × Rat × Int) × Rat")


def _ctor(cum_cls, **kw):
    """the constructor of a family's Lévy model from its first local assignment to `super().__init__(model_type=.., levy_triplet=..,
    cumulant=..)`: value = (model type, (a, sigma, representation) of the triplet, the drift handed to the cumulant class)"""
    return dict(params={"parameters": "obj"}, consts={**_REP, **_MODEL_TYPE},
                opts={"records": {cum_cls: [("drift", RAT)], "LevyTriplet": _TRIPLET}}, **_CTOR, **kw)


_MERP = {"parameters.mu_j": RAT, "parameters.sigma_j": RAT, "parameters.intensity": RAT, "parameters.sigma": RAT, "drift": RAT}
_MER_CUM = dict(params={"t": RAT}, ret=RAT, self_attrs=_MERP, opts=_FB)
_MER_PAR = {"parameters.intensity": ("intensity", RAT), "parameters.mu_j": ("mu_j", RAT), "parameters.sigma_j": ("sigma_j", RAT),
            "parameters.sigma": ("sigma", RAT)}
_VGP = {"parameters.sigma": RAT, "parameters.nu": RAT, "parameters.theta": RAT, "drift": RAT}
_VG_CUM = dict(params={"t": RAT}, ret=RAT, self_attrs=_VGP, opts=_FB)
_VG_INT = dict(params={"a": RAT, "b": RAT}, ret=RAT, err="(0 : Rat)", fuel="2",
               self_attrs={"parameters._c": RAT, "parameters._lambda_m": RAT, "parameters._lambda_p": RAT},
               const_exprs={"a==-np.inf": ("a_is_neg_inf", BOOL), "b==np.inf": ("b_is_pos_inf", BOOL)},
               fn_params={"np.exp": "exp"})
_CGMYP = {"parameters.c": RAT, "parameters.g": RAT, "parameters.m": RAT, "parameters.y": RAT, "drift": RAT}
_CGMY_CUM = dict(params={"t": RAT}, ret=RAT, self_attrs=_CGMYP, fn_params={"sp.special.gamma": "gamma", "**": "rpow"}, opts=_FB)

UNITS = [
    Unit("rpylib/model/levymodel/mixed/hem.py", [
        Fn("_HEMCumulant.cumulant1", **_HEM_CUM), Fn("_HEMCumulant.cumulant2", **_HEM_CUM),
        Fn("_HEMCumulant.cumulant4", **_HEM_CUM), Fn("_HEMCumulant.cumulant6", **_HEM_CUM),
        # the measure's own first and second moment (the same functions as in the C09 tie, translated again from the current source)
        Fn("_HEMLevyMeasure.integrate_against_x", **_HEM_INT), Fn("_HEMLevyMeasure.integrate_against_xx", **_HEM_INT),
        Fn("HEMModel.__init__#ctor", lean_name="HEMModel_init", block=("a=", "super().__init__("), const_exprs=_HEM_PAR,
           **_ctor("_HEMCumulant")),
        Fn("HEMModel.levy_exponent_pure_jump", params={"x": RAT}, ret=RAT, opts=_FB,
           self_attrs={k: v for k, v in _HEMP.items() if k not in ("drift", "parameters.sigma")}),
        Fn("HEMParameters.__init__#xi", lean_name="HEMParameters_init_xi",
           params={"p": RAT, "eta1": RAT, "eta2": RAT}, ret=RAT, stores={"_xi": RAT},
           block=("self_xi=", "self_xi="), result="None"),
        Fn("HEMParameters.initialisation", ret=RAT, stores={"_xi": RAT}, self_attrs={"p": RAT, "eta1": RAT, "eta2": RAT}),
        Fn("ExponentialOfHEMModel.__init__#drift", lean_name="ExponentialOfHEMModel_init_process_drift",
           params={"r": RAT, "d": RAT, "parameters": "obj"}, ret=RAT, stores={"_process_drift": RAT},
           block=("self_process_drift=", "self_process_drift="), result="None", const_exprs=_HEM_PAR),
    ]),
    Unit("rpylib/model/levymodel/mixed/merton.py", [
        Fn("_MertonCumulant.cumulant1", **_MER_CUM), Fn("_MertonCumulant.cumulant2", **_MER_CUM),
        Fn("_MertonCumulant.cumulant4", **_MER_CUM), Fn("_MertonCumulant.cumulant6", **_MER_CUM),
        Fn("MertonModel.__init__#ctor", lean_name="MertonModel_init", block=("a=", "super().__init__("), const_exprs=_MER_PAR,
           **_ctor("_MertonCumulant")),
        Fn("MertonModel.levy_exponent_pure_jump", params={"x": RAT}, ret=RAT, fn_params={"np.exp": "exp"}, opts=_FB,
           self_attrs={k: v for k, v in _MERP.items() if k not in ("drift", "parameters.sigma")}),
        Fn("ExponentialOfMertonModel.__init__#drift", lean_name="ExponentialOfMertonModel_init_process_drift",
           params={"r": RAT, "d": RAT, "parameters": "obj"}, ret=RAT, stores={"_process_drift": RAT},
           block=("sigma,mu_j,sigma_j,intensity=", "self_process_drift="), result="None", const_exprs=_MER_PAR,
           fn_params={"np.exp": "exp"}),
    ]),
    Unit("rpylib/model/levymodel/purejump/variancegamma.py", [
        Fn("_VGCumulant.cumulant1", **_VG_CUM), Fn("_VGCumulant.cumulant2", **_VG_CUM), Fn("_VGCumulant.cumulant4", **_VG_CUM),
        # the derived parameters (c, lambda_p, lambda_m) of the density c exp(-lambda_p x)/x, c exp(-lambda_m |x|)/|x|
        Fn("VGParameters.__init__", params={"sigma": RAT, "nu": RAT, "theta": RAT}, fn_params={"np.sqrt": "sqrt"},
           stores={"sigma": RAT, "nu": RAT, "theta": RAT, "_c": RAT, "_lambda_p": RAT, "_lambda_m": RAT}, lean_name="VGParameters_init"),
        Fn("VGParameters.initialisation", fn_params={"np.sqrt": "sqrt"}, self_attrs={"sigma": RAT, "nu": RAT, "theta": RAT},
           stores={"_c": RAT, "_lambda_p": RAT, "_lambda_m": RAT}),
        Fn("_VGLevyMeasure.integrate_against_x", **_VG_INT), Fn("_VGLevyMeasure.integrate_against_xx", **_VG_INT),
        Fn("VarianceGammaModel.__init__#ctor", lean_name="VarianceGammaModel_init", block=("triplet=", "super().__init__("),
           **_ctor("_VGCumulant")),
    ]),
    Unit("rpylib/model/levymodel/purejump/cgmy.py", [
        Fn("_CGMYCumulant.cumulant1", **_CGMY_CUM), Fn("_CGMYCumulant.cumulant2", **_CGMY_CUM),
        Fn("_CGMYCumulant.cumulant4", **_CGMY_CUM), Fn("_CGMYCumulant.cumulant6", **_CGMY_CUM),
        Fn("CGMYModel.__init__#ctor", lean_name="CGMYModel_init", block=("cumulant=", "super().__init__("),
           const_exprs={"parameters.y": ("y", RAT)}, **_ctor("_CGMYCumulant")),
        # the measure's own second moment over an interval that straddles 0 (the closed-form branch)
        Fn("_CGMYLevyMeasure.integrate_against_xx#straddle", lean_name="CGMYLevyMeasure_integrate_against_xx_straddle",
           params={"a": RAT, "b": RAT}, ret=RAT, block=("c,g,m,y=", "ifg==0"), result="first + second",
           self_attrs={k: v for k, v in _CGMYP.items() if k != "drift"},
           fn_params={"scipy.special.gamma": "gamma", "**": "rpow"},
           opaque_fns={"scipy.special.gammainc": ("gammainc", [RAT, RAT], RAT)}),
    ]),
    Unit("rpylib/model/levymodel/mixed/blackscholes.py", [
        *[Fn(f"_BlackScholesCumulant.cumulant{n}", params={"t": RAT}, ret=RAT, self_attrs={"drift": RAT, "parameters.variance": RAT},
             opts=_FB) for n in range(1, 7)],
        # sigma and the cached variance as the parameter class sets / refreshes them
        Fn("BlackScholesParameters.__init__", lean_name="BlackScholesParameters_init", params={"sigma": RAT},
           stores={"sigma": RAT, "variance": RAT}),
        Fn("BlackScholesParameters.initialisation", stores={"variance": RAT}, self_attrs={"sigma": RAT}),
        # value = (model type, (a, sigma, representation), (drift, sigma of the parameter object) handed to the cumulant class)
        Fn("PureDiffusiveModel.__init__#ctor", lean_name="PureDiffusiveModel_init", block=("levy_triplet=", "super().__init__("),
           params={"mu": RAT, "sigma": RAT}, consts={**_REP, **_MODEL_TYPE}, ctor=_CTOR["ctor"], ret="Int × (Rat × Rat × Int) × (Rat × Rat)",
           opts={"records": {"_BlackScholesCumulant": [("drift", RAT), ("parameters", RAT)], "BlackScholesParameters": [("sigma", RAT)],
                             "LevyTriplet": _TRIPLET}}),
        Fn("BlackScholesModel.process_drift", ret=RAT, self_attrs={"r": RAT, "d": RAT, "parameters.sigma": RAT}, opts=_FB),
    ]),
    Unit("rpylib/model/levymodel/exponentialoflevymodel.py", [
        Fn("ExponentialOfLevyModel.drift", params={"t": RAT, "x": RAT}, ret=RAT, self_attrs={"r": RAT, "d": RAT, "omega": RAT}, opts=_FB),
        # omega as the constructor sets it; psi_minus_i stands for levy_model.levy_exponent(x=-1j).real
        Fn("ExponentialOfLevyModel.__init__#omega", lean_name="ExponentialOfLevyModel_init_omega", params={"levy_model": "obj"},
           ret=RAT, stores={"omega": RAT}, block=("self_omega=", "self_omega="), result="None",
           const_exprs={"levy_model.levy_exponent(x=-1j).real": ("psi_minus_i", RAT)}),
        # the drift inside the characteristic function of log S_t
        Fn("ExponentialOfLevyModel.log_characteristic_function#drift", lean_name="ExponentialOfLevyModel_cf_drift", ret=RAT,
           block=("drift=", "drift="), result="drift", self_attrs={"r": RAT, "d": RAT, "omega": RAT}, opts=_FB),
    ]),
]


# ---------------------------------------------------------------------------------------------------------------------
# directed search on the REAL implementation, run when an obligation of ProofsGen/SrcC10b.lean no longer checks.  The identities
# are the ones the (B)-theorems state — true of every correct implementation, computed from the model's own DENSITY by quadrature
# (never from what the old code returned):
#   cumulants    cumulant_n(t) = t · [n-th moment of the density] (+ sigma² for n = 2; n = 1: the drift of the constructed triplet in the
#                CENTER representation, i.e. a + ∫ x ν in ZERO, a in CENTER); linear in t; even ones >= 0
#   ctor         the cumulant class holds the triplet's drift; HEM / Merton / VG declare ZERO, CGMY CENTER (y >= 0)
#   moments      whole-line integrate_against_x / _xx of HEM and VG = the moments of the density; VG: λ₊ λ₋ = 2/(ν σ²), λ₋ − λ₊ = 2θ/σ²
#   kappa        levy_exponent_pure_jump(s) of HEM / Merton at real s = ∫ (e^{sx} − 1) ν(dx); λ · _xi = κ(1), also after initialisation()
#   martingale   drift() + ψ(−i) = r − d; log cf at −i = (r − d) T; HEM / Merton: process_drift + σ²/2 + ∫ (e^x − 1) ν = r − d and
#                process_drift = drift() + a (constructed ZERO drift)
# CGMY with y < 0 is left out of the first-cumulant identity (recorded finding C10-cgmy-negative-y-exponent-centered).
REL = 2e-7


def _close(x, y, scale=0.0):
    return abs(x - y) <= REL * max(1.0, abs(x), abs(y), scale) + 1e-11


def _moment(nu, n, extra=lambda x: 1.0):
    """∫ x^n extra(x) ν(x) dx over the real line by quadrature of the density itself (split at 0 and at ±1)"""
    import numpy as np
    from scipy.integrate import quad

    def f(x):
        d = float(nu(x))
        return float(x ** n * extra(x) * d) if d != 0.0 else 0.0
    tot = 0.0
    for lo, hi in ((-np.inf, -1.0), (-1.0, 0.0), (0.0, 1.0), (1.0, np.inf)):
        tot += quad(f, lo, hi, limit=400, epsabs=1e-13, epsrel=1e-11)[0]
    return tot


def _models(lits):
    """(family, params): the zoo's defaults and activity branches, a structured family, and parameter sets that carry each numeric
    literal of the current source (and its neighbours) in every slot where it is a legal value"""
    import random
    from harness import zoo
    out = [(f, {}) for f in zoo.FAMILIES]
    rng = random.Random(10)
    out += [("cgmy", zoo.draw_params(rng, "cgmy", y)) for y in (0.0, 0.5, 1.0, 1.5)]
    out += [("hem", dict(sigma=0.1, p=0.3, eta1=20.0, eta2=12.0, intensity=4.0)),
            ("hem", dict(sigma=0.0, p=1.0, eta1=3.0, eta2=7.0, intensity=0.5)),
            ("hem", dict(sigma=0.25, p=0.5, eta1=1.5, eta2=1.25, intensity=2.0)),
            ("merton", dict(sigma=0.2, mu_j=0.05, sigma_j=0.1, intensity=3.0)),
            ("merton", dict(sigma=0.0, mu_j=0.5, sigma_j=0.75, intensity=0.25)),
            ("vg", dict(sigma=0.2, nu=0.1, theta=-0.15)), ("vg", dict(sigma=0.5, nu=2.0, theta=0.25)),
            ("vg", dict(sigma=0.12, nu=0.2, theta=0.0)),
            ("cgmy", dict(c=0.5, g=3.0, m=8.0, y=0.25)), ("cgmy", dict(c=1.5, g=9.0, m=4.0, y=1.75)),
            ("cgmy", dict(c=1.0, g=6.0, m=6.0, y=1.25))]
    vals = sorted({abs(float(x)) for l in lits if isinstance(l, (int, float)) and 0 < abs(l) < 1e4
                   for x in (l, l + 0.5, l / 2, l + 2.0 ** -6)})[:16]
    for v in vals:
        base = dict(sigma=0.1, p=0.4, eta1=9.0, eta2=11.0, intensity=2.0)
        for k in ("sigma", "eta1", "eta2", "intensity") + (("p",) if v <= 1 else ()):
            if not (k == "eta1" and v <= 1.05):
                out.append(("hem", dict(base, **{k: v})))
        base = dict(sigma=0.1, mu_j=0.05, sigma_j=0.2, intensity=2.0)
        for k in ("sigma", "mu_j", "sigma_j", "intensity"):
            if v <= 3 or k == "intensity":
                out.append(("merton", dict(base, **{k: v})))
        base = dict(sigma=0.2, nu=0.3, theta=0.1)
        for k in ("sigma", "nu", "theta"):
            if v <= 4:
                out.append(("vg", dict(base, **{k: v})))
                if k == "theta":
                    out.append(("vg", dict(base, theta=-v)))
        base = dict(c=1.0, g=7.0, m=5.0, y=0.5)
        for k in ("c", "g", "m") + (("y",) if v < 1.95 else ()):
            if k not in ("g", "m") or v >= 0.5:
                out.append(("cgmy", dict(base, **{k: v})))
    return out


def search(ctx, lits):
    import math
    import numpy as np
    from harness import zoo
    from rpylib.model.levymodel.levymodel import LevyRepresentation as LR
    found = [0]

    def fail(name, inp, detail):
        ctx.fail("oracle", "c10.src.search", inp, {"name": name, "detail": detail})
        found[0] += 1

    ts = sorted({1.0, 2.5, 0.25} | {abs(float(l)) for l in lits if isinstance(l, (int, float)) and 0 < abs(l) <= 1000})[:8]
    # ---- Black-Scholes / pure diffusion: no jumps, so cumulant1 = a t, cumulant2 = sigma^2 t, the others 0; process_drift + sigma^2/2 = r - d
    sigmas = sorted({0.2, 0.05, 1.5} | {abs(float(l)) for l in lits if isinstance(l, (int, float)) and 0 < abs(l) <= 4})[:8]
    for sg in sigmas:
        for mu in (0.0, 0.3, -1.25):
            inp = {"family": "pure_diffusion", "params": {"mu": mu, "sigma": sg}}
            ctx.count("c10.src.search", inp, nontrivial=False)
            try:
                from rpylib.model.levymodel.mixed.blackscholes import PureDiffusiveModel
                pm = PureDiffusiveModel(mu=mu, sigma=sg)
                for t in ts:
                    got = [float(getattr(pm.cumulant, f"cumulant{n}")(t)) for n in range(1, 7)]
                    want = [mu * t, sg * sg * t, 0.0, 0.0, 0.0, 0.0]
                    if not all(_close(g, w_) for g, w_ in zip(got, want)) or float(pm.levy_triplet.a) != mu or float(pm.levy_triplet.sigma) != sg:
                        fail("bs.cumulants", dict(inp, t=t), {"cumulants_1_to_6": got, "expected": want, "triplet": [float(pm.levy_triplet.a), float(pm.levy_triplet.sigma)]})
                        break
            except Exception as e:
                fail("bs.cumulants", inp, {"raised": repr(e)})
        for r, d in ((0.02, 0.0), (0.05, 0.03), (0.0, 0.04)):
            inp = {"family": "bs", "params": {"sigma": sg}, "r": r, "d": d}
            try:
                em = zoo.make_exp("bs", {"sigma": sg}, spot=100.0, r=r, d=d)
                pd, dr = float(em.process_drift()), float(em.drift())
                psi = complex(em.levy_model.levy_exponent(x=-1j)).real
                if not (_close(pd + 0.5 * sg * sg, r - d) and _close(dr + psi, r - d) and _close(pd, dr)):
                    fail("bs.drifts", inp, {"process_drift": pd, "drift()": dr, "psi(-i)": psi, "sigma^2/2": 0.5 * sg * sg, "r-d": r - d})
            except Exception as e:
                fail("bs.drifts", inp, {"raised": repr(e)})
    for fam, prm in _models(lits):
        if found[0] > 16:
            return
        inp = {"family": fam, "params": prm}
        try:
            m = zoo.make_levy(fam, prm)
            nu, trip, cum, P = m.levy_triplet.nu, m.levy_triplet, m.cumulant, m.parameters
            a, rep, sig = float(trip.a), trip.representation, float(trip.sigma)
            yv = float(P.y) if fam == "cgmy" else None
            mom = {n: _moment(nu, n) for n in (2, 4, 6)}
            if fam != "cgmy" or yv < 1:
                mom[1] = _moment(nu, 1)
        except Exception as e:
            fail("construction", inp, {"raised": repr(e)})
            continue
        ctx.count("c10.src.search", inp, nontrivial=False)
        # ---- constructor
        if float(cum.drift) != a:
            fail("ctor.drift", inp, {"cumulant.drift": float(cum.drift), "levy_triplet.a": a})
        want_rep = LR.CENTER if (fam == "cgmy" and yv >= 0) else LR.ZERO
        if rep != want_rep:
            fail("ctor.representation", inp, {"declared": rep.name, "expected": want_rep.name})
        # ---- cumulants = t x moments of the density
        center = a if rep == LR.CENTER else (a + mom[1] if 1 in mom else None)
        for t in ts:
            want = {1: center, 2: sig * sig + mom[2], 4: mom[4], 6: mom[6]}
            for n in (1, 2, 4, 6):
                if want[n] is None or (n == 1 and fam == "cgmy" and yv < 0):
                    continue
                try:
                    got = float(getattr(cum, f"cumulant{n}")(t))
                    got2 = float(getattr(cum, f"cumulant{n}")(2 * t))
                except NotImplementedError:
                    continue
                except Exception as e:
                    fail(f"cumulant{n}", dict(inp, t=t), {"raised": repr(e)})
                    continue
                sc = abs(a) + sig * sig + sum(abs(v) for v in mom.values())
                if not _close(got, want[n] * t, sc * t):
                    fail(f"cumulant{n}", dict(inp, t=t), {f"cumulant{n}(t)": got, "t_times_moment_of_the_density": want[n] * t,
                                                          "moment": want[n]})
                if not _close(got2, 2 * got, sc * t):
                    fail(f"cumulant{n}.linear", dict(inp, t=t), {"cumulant(2t)": got2, "2*cumulant(t)": 2 * got})
                if n != 1 and got < 0:
                    fail(f"cumulant{n}.sign", dict(inp, t=t), {"cumulant": got})
        # ---- whole-line moments as the measure class computes them (HEM, VG)
        if fam in ("hem", "vg"):
            try:
                m1, m2 = float(nu.integrate_against_x(-np.inf, np.inf)), float(nu.integrate_against_xx(-np.inf, np.inf))
                if not _close(m1, mom[1]) or not _close(m2, mom[2]):
                    fail("whole_line_moments", inp, {"integrate_against_x": m1, "integrate_against_xx": m2,
                                                     "quadrature_of_density": [mom[1], mom[2]]})
            except Exception as e:
                fail("whole_line_moments", inp, {"raised": repr(e)})
        if fam == "vg":
            s2 = float(P.sigma) ** 2
            lp, lm, c = float(P._lambda_p), float(P._lambda_m), float(P._c)
            if not (_close(lp * lm, 2 / (float(P.nu) * s2)) and _close(lm - lp, 2 * float(P.theta) / s2) and _close(c * float(P.nu), 1.0)):
                fail("vg.derived_parameters", inp, {"_c": c, "_lambda_p": lp, "_lambda_m": lm})
        # ---- pure-jump exponent at real arguments
        if fam in ("hem", "merton"):
            lo, hi = (-float(P.eta2), float(P.eta1)) if fam == "hem" else (-4.0, 4.0)
            ss = sorted({s for s in [1.0, -1.0, 0.5, 2.0, -2.5, 0.0] + [float(l) for l in lits if isinstance(l, (int, float)) and abs(l) < 50]
                         if lo * 0.9 < s < hi * 0.9})[:10]
            for s in ss:
                try:
                    got = complex(m.levy_exponent_pure_jump(s)).real
                    want = _moment(nu, 0, lambda x, s=s: math.expm1(min(s * x, 700.0)))
                except Exception as e:
                    fail("kappa", dict(inp, s=s), {"raised": repr(e)})
                    continue
                if not _close(got, want, float(P.intensity)):
                    fail("kappa", dict(inp, s=s), {"levy_exponent_pure_jump(s)": got, "integral_(e^{sx}-1)_nu": want})
        if fam == "hem" and float(P.eta1) > 1.05:
            k1 = _moment(nu, 0, lambda x: math.expm1(min(x, 700.0)))
            for hist in ("constructed", "initialisation"):
                try:
                    Q = P
                    if hist == "initialisation":
                        import copy
                        Q = copy.deepcopy(P)
                        e1 = float(Q.eta1)
                        Q.eta1 = e1 + 1.0
                        Q.initialisation()
                        Q.eta1 = e1
                        Q.initialisation()
                    if not _close(float(Q.intensity) * float(Q._xi), k1, float(Q.intensity)):
                        fail("hem.xi", dict(inp, history=hist), {"intensity*_xi": float(Q.intensity) * float(Q._xi), "kappa(1)_by_quadrature": k1})
                except Exception as e:
                    fail("hem.xi", dict(inp, history=hist), {"raised": repr(e)})
        # ---- exponential model: the three routes
        if fam == "cgmy" and (yv <= 0 or yv == 1):
            continue                                     # recorded findings about the CGMY exponent on these branches
        if (fam == "cgmy" and float(P.m) <= 1.05) or (fam == "vg" and float(P._lambda_p) <= 1.05) or (fam == "hem" and float(P.eta1) <= 1.05):
            continue                                     # E[e^{L_t}] does not exist: there is no exponential model
        for spot, r, d in ((100.0, 0.02, 0.0), (1.0, 0.05, 0.03), (37.5, 0.0, 0.04)):
            if found[0] > 16:
                return
            einp = dict(inp, spot=spot, r=r, d=d)
            try:
                em = zoo.make_exp(fam, prm, spot=spot, r=r, d=d)
                psi = complex(em.levy_model.levy_exponent(x=-1j)).real
                dr = float(em.drift())
                if not _close(dr + psi, r - d):
                    fail("cf_route", einp, {"drift()": dr, "psi(-i)": psi, "r-d": r - d})
                for T in (1.0, 0.25, 3.0):
                    v = complex(em.log_characteristic_function(t=T, x=-1j, log_spot=0.0))
                    if not _close(v.real, math.exp((r - d) * T)) or abs(v.imag) > 1e-9:
                        fail("cf_route.forward", dict(einp, T=T), {"E[S_T/S_0]": [v.real, v.imag], "exp((r-d)T)": math.exp((r - d) * T)})
                if fam in ("hem", "merton") and (fam != "hem" or float(P.eta1) > 1.05):
                    pd = float(em.process_drift())
                    sg = float(em.levy_model.levy_triplet.sigma)
                    k1 = _moment(em.levy_model.levy_triplet.nu, 0, lambda x: math.expm1(min(x, 700.0)))
                    if not _close(pd + 0.5 * sg * sg + k1, r - d, float(P.intensity)):
                        fail("direct_route", einp, {"process_drift": pd, "sigma^2/2": 0.5 * sg * sg, "integral_(e^x-1)_nu": k1, "r-d": r - d})
                    if not _close(pd, dr + float(em.levy_model.levy_triplet.a), float(P.intensity)):
                        fail("direct_vs_cf", einp, {"process_drift": pd, "drift()": dr, "triplet_a_ZERO": float(em.levy_model.levy_triplet.a)})
            except Exception as e:
                fail("exponential", einp, {"raised": repr(e)})
