"""Source-derived tie for C12 (DESIGN.md §9).  Translated to Lean on every run (lean/RpylibModel/Generated/SrcC12.lean):
the signed corner sum `volume`, the hard-coded rectangle masses `LevyCopulaModel._mass_1d / _mass_2d / _mass_3d`, the general
recursion `_mass_nd`, `tail_integrals` (rpylib/model/levycopulamodel.py) and `sign` (float overload), `interval_I`
(rpylib/numerical/tools.py).  Obligations: lean/RpylibModel/ProofsGen/SrcC12.lean; alignment with the hand-written model on the
boxes containing the origin, and the recorded defects read off the source: ProofsGen/SrcC12Model.lean.

Collaborators of the translated functions (parameters of the Lean definitions, universally quantified in the theorems):
    mti  : List Int -> List Rat -> Rat     self.margin_tail_integral(indices, x)   (also through functools.partial)
    mti1 : Int -> Rat -> Rat               self.marginal_tail_integral(i, x)
    f    : List Rat -> Rat                 the function handed to `volume`
    cop  : List Rat -> Rat                 self.copula(np.array([..])) in `tail_integrals`
    pinf, ninf : Rat                       `np.inf`, `-np.inf` in `_mass_nd` / `interval_I` (two abstract points)
    self_full_indices : List Int           `self._full_indices`
Not translated: `margin` (a closure that writes into numpy arrays with fancy indexing), `margin_tail_integral` (consumes an
iterator with `next(x)`, compares lists, calls `margin`), `marginal_tail_integral` (star-argument call on an element of a list
of objects; its two ingredients `sign` and `interval_I` ARE translated), `inverse_tail_integral` (scipy root search on a nested
function), the `sign` overload for iterables (not used by the mass formulas).
"""
from __future__ import annotations

from harness.py2lean import Fn, Unit, INT, RAT, BOOL  # noqa: F401

MTI = {"self.margin_tail_integral": ("mti", ["List Int", "List Rat"], RAT),
       "self.marginal_tail_integral": ("mti1", [INT, RAT], RAT)}

UNITS = [Unit("rpylib/model/levycopulamodel.py", [
    Fn("volume", params={"f": "fn:List Rat → Rat", "a": "List Rat", "b": "List Rat"}, ret=RAT),
    Fn("LevyCopulaModel._mass_1d", params={"a": RAT, "b": RAT, "index": INT}, ret=RAT, opaque_fns=MTI),
    Fn("LevyCopulaModel._mass_2d", params={"a": "List Rat", "b": "List Rat", "indices": "opt:List Int"}, ret=RAT,
       opaque_fns=MTI),
    Fn("LevyCopulaModel._mass_3d", params={"a": "List Rat", "b": "List Rat", "indices": "opt:List Int"}, ret=RAT,
       opaque_fns=MTI),
    # the general recursion.  `np.inf` / `-np.inf` are two parameters `pinf`, `ninf : Rat` of the definition (the code only ever
    # compares a coordinate with 0 and hands it to the tail integrals, so the theorems — which assume nothing of the two points,
    # or only `ninf < 0 < pinf` — cover the run with the IEEE infinities through any sign-preserving relabelling of the
    # coordinates); recursion depth <= number of straddling coordinates + 1 <= len(a) + 1 (fuel; exhausted -> 0)
    Fn("LevyCopulaModel._mass_nd", params={"a": "List Rat", "b": "List Rat", "indices": "opt:List Int"}, ret=RAT,
       opaque_fns=MTI, self_attrs={"_full_indices": "List Int"},
       const_exprs={"np.inf": ("pinf", RAT), "-np.inf": ("ninf", RAT)}, fuel="List.length a + 1", err="(0 : Rat)"),
    # F(U_1(x_1), .., U_d(x_d)): the copula (a callable object: `self.copula`) at the marginal tail integrals
    Fn("LevyCopulaModel.tail_integrals", params={"x": "List Rat"}, ret=RAT,
       opaque_fns={"self.marginal_tail_integral": ("mti1", [INT, RAT], RAT), "self.copula": ("cop", ["List Rat"], RAT)}),
]), Unit("rpylib/numerical/tools.py", [
    # the two ingredients of `marginal_tail_integral(i, x) = sign(x) * nu_i.integrate(*interval_I(x))` (levycopulamodel.py:299;
    # that line itself — a star-argument call on an element of a list of objects — is outside the subset)
    Fn("sign@float", params={"x": RAT}, ret=RAT),
    Fn("interval_I", params={"x": RAT}, ret="Rat × Rat", const_exprs={"np.inf": ("pinf", RAT), "-np.inf": ("ninf", RAT)}),
])]


# ---------------------------------------------------------------------------------------------------------------------
# directed search, run when an obligation of ProofsGen/SrcC12.lean no longer checks.  The identities are the property's:
#   (1) for the tail integrals of a measure with finitely many atoms (none on a coordinate hyperplane), the mass of a rectangle
#       (a, b] that does not contain the origin IS the total weight of the atoms inside — for the full index set and for
#       every sub-family, through the fast paths and through the general recursion; exact integer arithmetic, the REAL
#       functions of the current tree run on an object whose only own members are those tail integrals;
#   (2) `volume` of a distribution function over (a, b] is the weight of the atoms inside, d = 1..4;
#   (3) on a real LevyCopulaModel (HEM margins, Clayton copula): fast path = general recursion, additivity under a split,
#       non-negativity, whole-line margins = the marginal Levy measure.
# End points exactly 0 and boxes containing the origin are excluded (recorded findings of the unchanged tree).
def _candidates(lits, cap=7):
    """(all candidate end points, the ones that come from literals of the current source and their neighbours)"""
    import math
    base = [-2.0, -0.75, -0.25, 0.25, 0.75, 2.0]
    extra = []
    for l in sorted({float(x) for x in lits if isinstance(x, (int, float)) and math.isfinite(float(x)) and abs(float(x)) < 1e6},
                    key=lambda v: (-len(repr(v)), abs(v), v)):          # unusual literals first
        for v in (l, -l, l + 1, l - 1, l + 2.0 ** -10, l - 2.0 ** -10):
            if v != 0 and v not in base and v not in extra:
                extra.append(v)
    extra = extra[:cap]
    return sorted(set(base + extra)), set(extra)


def _intervals(c, special=()):
    """sides (lo, hi], lo < hi, no end point 0: every sign pattern, finite and infinite ends; every value that comes from a
    literal of the source is the lower and the upper end of a straddling, of a one-sided and of a half-infinite side"""
    import math
    neg, pos = [v for v in c if v < 0], [v for v in c if v > 0]
    out = []
    for v in sorted(special):
        if v < 0:
            out += [(v, pos[0]), (v, pos[-1]), (-math.inf, v), (v, math.inf)] + [(n_, v) for n_ in neg if n_ < v][-1:] \
                + [(v, n_) for n_ in neg if n_ > v][:1]
        else:
            out += [(neg[0], v), (neg[-1], v), (v, math.inf), (-math.inf, v)] + [(p_, v) for p_ in pos if p_ < v][-1:] \
                + [(v, p_) for p_ in pos if p_ > v][:1]
    out += list(zip(c, c[1:]))                                      # consecutive (one of them straddles)
    out += [(neg[0], neg[-1]), (pos[0], pos[-1])] if len(neg) > 1 and len(pos) > 1 else []
    out += [(n_, p_) for n_ in (neg[0], neg[-1]) for p_ in (pos[0], pos[-1])]          # straddling
    out += [(-math.inf, neg[0]), (-math.inf, neg[-1]), (-math.inf, pos[0]), (pos[-1], math.inf), (pos[0], math.inf),
            (neg[-1], math.inf), (-math.inf, math.inf)]
    seen, res = set(), []
    for s in out:
        if s[0] < s[1] and s not in seen:
            seen.add(s)
            res.append(s)
    return res


class _Atoms:
    """finite measure with integer weights on a product grid of points (no coordinate 0)"""

    def __init__(self, cands, d, seed=12345):
        import itertools
        import numpy as np
        mids = [cands[0] - 1.0] + [(x + y) / 2 for x, y in zip(cands, cands[1:])] + [cands[-1] + 1.0]
        mids = [m if m != 0 else 2.0 ** -12 for m in mids]
        pts = list(itertools.product(mids, repeat=d))
        rng = np.random.RandomState(seed)
        keep = rng.rand(len(pts)) < min(1.0, 400.0 / len(pts))
        self.p = np.array([p for p, k in zip(pts, keep) if k], dtype=float)
        self.w = rng.randint(1, 2 ** 20, size=len(self.p)).astype(np.int64)
        self.d = d

    def inside(self, I, a, b):
        import numpy as np
        m = np.ones(len(self.p), dtype=bool)
        for k, lo, hi in zip(I, a, b):
            m &= (self.p[:, k] > lo) & (self.p[:, k] <= hi)
        return int(self.w[m].sum())

    def tail(self, I, x):
        """sign(x) * mu(I(x_1) x ... ), I(x) = (x, inf) for x >= 0, (-inf, x] for x < 0   (numerical/tools.py)"""
        import numpy as np
        m = np.ones(len(self.p), dtype=bool)
        sg = 1
        for k, v in zip(I, x):
            if v < 0:
                m &= self.p[:, k] <= v
                sg = -sg
            else:
                m &= self.p[:, k] > v
        return sg * int(self.w[m].sum())

    def cdf(self, x):
        import numpy as np
        m = np.ones(len(self.p), dtype=bool)
        for k, v in enumerate(x):
            m &= self.p[:, k] <= v
        return int(self.w[m].sum())


def _stub(mu):
    import types
    from rpylib.model.levycopulamodel import LevyCopulaModel

    class Stub:
        def __getattr__(self, name):               # everything else is the class's own code, bound to this object
            attr = getattr(LevyCopulaModel, name)
            return types.MethodType(attr, self) if callable(attr) else attr

    s = Stub()
    s._dimension = mu.d
    s._full_indices = list(range(mu.d))
    s.margin_tail_integral = lambda indices, x: mu.tail(list(indices), list(x))
    s.marginal_tail_integral = lambda i, x: mu.tail([i], [x])
    s.tail_integrals = lambda x: mu.tail(list(range(mu.d)), list(x))
    return s


def _js(v):
    import math
    return ("inf" if v > 0 else "-inf") if isinstance(v, float) and math.isinf(v) else v


def search(ctx, lits):
    import itertools
    import math
    from rpylib.model.levycopulamodel import volume
    found = [0]

    def report(name, inp, detail):
        ctx.fail("oracle", "c12.src.search", inp, {"name": name, "detail": detail})
        found[0] += 1

    cands, special = _candidates(lits)
    sides = _intervals(cands, special)

    def pick(pool, n):
        """about n sides: those with an end point that comes from a literal of the source first (straddling ones among them),
        then an even sample of the others"""
        sp = [s_ for s_ in pool if s_[0] in special or s_[1] in special]
        sp = [s_ for s_ in sp if s_[0] < 0 < s_[1]][: max(2, n // 3)] + [s_ for s_ in sp if not s_[0] < 0 < s_[1]]
        first = sp[: max(2, (2 * n) // 3)]
        rest = [s_ for s_ in pool if s_ not in first]
        k = max(1, n - len(first))
        more = rest[:: max(1, len(rest) // k)][:k] if rest else []
        return first + more
    dims = [1, 2, 3, 4] + sorted({int(l) for l in lits if isinstance(l, int) and 5 <= l <= 6})

    # (2) volume of a distribution function = weight of the atoms inside, d = 1..4
    for d in dims:
        mu = _Atoms(cands if d < 4 else cands[:: max(1, len(cands) // (5 if d == 4 else 3))], d, seed=100 + d)
        fin = [s for s in sides if all(math.isfinite(v) for v in s)]
        rects = list(itertools.product(pick(fin, 9 if d < 4 else (4 if d == 4 else 2)), repeat=d))[:900]
        for r in rects:
            a, b = [s[0] for s in r], [s[1] for s in r]
            inp = {"what": "volume", "d": d, "a": a, "b": b, "atoms_seed": 100 + d, "candidates": cands}
            ctx.count("c12.src.search", inp, nontrivial=False)
            try:
                got = volume(lambda u: mu.cdf(list(u)), a, b)
            except Exception as e:
                report("volume raises", inp, repr(e))
                continue
            want = mu.inside(range(d), a, b)
            if got != want:
                report("volume(cdf, a, b) != weight of the atoms in (a, b]", inp, {"volume": int(got), "atoms": want})
            if found[0] > 20:
                return

    # (1) fast paths and general recursion on the tail integrals of an atomic measure, exact
    for d in (2, 3):
        mu = _Atoms(cands, d, seed=200 + d)
        st = _stub(mu)
        fast = st._mass_2d if d == 2 else st._mass_3d
        per_axis = pick(sides, 30 if d == 2 else 10)
        per_axis += [s for s in sides if s[0] < 0 < s[1] and s not in per_axis][:3]
        for k in range(1, d + 1):
            for I in itertools.combinations(range(d), k):
                for r in itertools.product(per_axis, repeat=k):
                    a, b = [s[0] for s in r], [s[1] for s in r]
                    if all(x < 0 < y for x, y in zip(a, b)):
                        continue                                    # contains the origin
                    inp = {"what": "mass", "d": d, "I": list(I), "a": [_js(v) for v in a], "b": [_js(v) for v in b],
                           "atoms_seed": 200 + d, "candidates": cands}
                    ctx.count("c12.src.search", inp, nontrivial=False)
                    want = mu.inside(I, a, b)
                    for nm, fn in (("fast", fast), ("general", st._mass_nd)):
                        try:
                            got = fn(list(a), list(b), list(I)) if (k < d or nm == "general") else fn(list(a), list(b))
                        except Exception as e:
                            report(f"{nm} path raises", inp, repr(e))
                            continue
                        if got != want:
                            report(f"{nm} path: mass of the rectangle != weight of the atoms inside", inp,
                                   {"mass": (int(got) if got == int(got) else float(got)), "atoms": want})
                    if found[0] > 20:
                        return

    # (0) sign / interval_I at non-zero points: the tail integral is -nu((-inf, x]) for x < 0, +nu((x, inf)) for x > 0
    from rpylib.numerical.tools import sign, interval_I
    for v in sorted(set(cands) | {float(x) for x in special}):
        inp = {"what": "sign / interval_I", "x": v}
        ctx.count("c12.src.search", inp, nontrivial=False)
        try:
            sg, iv = sign(float(v)), tuple(interval_I(float(v)))
        except Exception as e:
            report("sign / interval_I raises", inp, repr(e))
            continue
        want = (-1.0, (-math.inf, v)) if v < 0 else (1.0, (v, math.inf))
        if (float(sg), tuple(float(t) for t in iv)) != want:
            report("sign(x), interval_I(x) are not (-1, (-inf, x)) for x < 0 / (+1, (x, inf)) for x > 0", inp,
                   {"sign": float(sg), "interval": [_js(float(t)) for t in iv]})

    # (3) a real model: fast = general, additivity, non-negativity, margins
    from harness import zoo
    prm = [dict(sigma=0.1, p=0.4, eta1=12.0, eta2=9.0, intensity=3.0), dict(sigma=0.2, p=0.6, eta1=20.0, eta2=7.0, intensity=1.5),
           dict(sigma=0.15, p=0.5, eta1=8.0, eta2=15.0, intensity=5.0)]
    fsides = [s for s in sides if max([abs(v) for v in s if math.isfinite(v)] + [0.0]) <= 4.0] or sides
    for d in (2, 3):
        model = zoo.make_copula_model([zoo.make_levy("hem", p) for p in prm[:d]], zoo.make_copula("clayton", theta=0.7, eta=0.3))
        per_axis = pick(fsides, 10 if d == 2 else 6)
        per_axis += [s for s in fsides if s[0] < 0 < s[1] and s not in per_axis][:2]
        for r in itertools.product(per_axis, repeat=d):
            a, b = [s[0] for s in r], [s[1] for s in r]
            if all(x < 0 < y for x, y in zip(a, b)):
                continue
            inp = {"what": "real model", "d": d, "margins": prm[:d], "copula": {"clayton": {"theta": 0.7, "eta": 0.3}},
                   "a": [_js(v) for v in a], "b": [_js(v) for v in b]}
            ctx.count("c12.src.search", inp, nontrivial=False)
            try:
                f, g = float(model.mass(list(a), list(b))), float(model._mass_nd(list(a), list(b)))
            except Exception as e:
                report("mass raises", inp, repr(e))
                continue
            sc = sum(abs(float(model.marginal_tail_integral(i, v))) for i in range(d) for v in (a[i], b[i]) if math.isfinite(v)) + 1e-300
            if not (abs(f - g) <= 1e-9 * sc):
                report("fast path != general recursion", inp, {"fast": f, "general": g})
            if not (f >= -1e-9 * sc):
                report("negative mass of a rectangle without the origin", inp, {"fast": f})
            for k in range(d):
                if not (math.isfinite(a[k]) and math.isfinite(b[k])):
                    continue
                c = (a[k] + b[k]) / 2 if (a[k] + b[k]) != 0 else a[k] / 2
                bl, ar = list(b), list(a)
                bl[k], ar[k] = c, c
                try:
                    left, right = float(model.mass(list(a), bl)), float(model.mass(ar, list(b)))
                except Exception as e:
                    report("mass raises", dict(inp, split=[k, c]), repr(e))
                    continue
                if not (abs(f - left - right) <= 1e-9 * sc):
                    report("mass(whole) != mass(left) + mass(right)", dict(inp, split=[k, c]), {"whole": f, "left": left, "right": right})
            if found[0] > 20:
                return
        import numpy as np
        for r in itertools.product([s_[0] for s_ in per_axis if math.isfinite(s_[0])][:6], repeat=d):
            inp = {"what": "real model, tail integral of the full family", "d": d, "margins": prm[:d], "x": list(r)}
            ctx.count("c12.src.search", inp, nontrivial=False)
            got = float(model.tail_integrals(list(r)))
            want = float(model.copula(np.array([model.marginal_tail_integral(i, xi) for i, xi in enumerate(r)])))
            if not (got == want or abs(got - want) <= 1e-12 * max(1.0, abs(want))):
                report("tail_integrals(x) != copula(U_1(x_1), .., U_d(x_d))", inp, {"tail_integrals": got, "copula_at_tails": want})
        for k in range(d):
            for lo, hi in [s for s in fsides if not (s[0] < 0 < s[1]) and all(math.isfinite(v) for v in s)][:12]:
                m1 = float(model._mass_1d(lo, hi, k))
                w1 = float(model._marginal_levy_measure[k].integrate(lo, hi))
                if not (abs(m1 - w1) <= 1e-8 * (abs(w1) + abs(float(model.marginal_tail_integral(k, lo))) + 1e-300)):
                    report("_mass_1d != marginal Levy mass", {"what": "real model", "d": d, "margins": prm[:d], "k": k, "lo": lo, "hi": hi},
                           {"mass_1d": m1, "marginal": w1})
                a, b = [-math.inf] * d, [math.inf] * d
                a[k], b[k] = lo, hi
                inp = {"what": "real model, whole line in the other coordinates", "d": d, "margins": prm[:d], "k": k, "lo": lo, "hi": hi}
                ctx.count("c12.src.search", inp, nontrivial=False)
                got = float(model.mass(a, b))
                want = float(model._marginal_levy_measure[k].integrate(lo, hi))
                if not (abs(got - want) <= 1e-8 * (abs(want) + abs(float(model.marginal_tail_integral(k, lo))) + 1e-300)):
                    report("whole-line mass != marginal Levy mass", inp, {"mass": got, "marginal": want})
