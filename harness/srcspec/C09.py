"""Source-derived tie for C09, second set (see harness/srcspec/__init__.py): tools/integral.py, Merton, variance gamma, CGMY."""
from harness.py2lean import Fn, Unit, INT, RAT, BOOL

_INF = {"a==-np.inf": ("a_is_neg_inf", BOOL), "b==np.inf": ("b_is_pos_inf", BOOL),
        "a==np.inf": ("a_is_pos_inf", BOOL), "b==-np.inf": ("b_is_neg_inf", BOOL)}

_VG = dict(params={"a": RAT, "b": RAT, "n": INT, "x": RAT}, ret=RAT, err="(0 : Rat)", fuel="2",
           self_attrs={"parameters._c": RAT, "parameters._lambda_m": RAT, "parameters._lambda_p": RAT},
           const_exprs=_INF, fn_params={"np.exp": "exp", "spp.exp1": "exp1"},
           opaque_fns={"integral_xn_exp_minus_x": ("ixn", [INT, RAT, RAT, RAT], RAT)},
           opts={"opaque_kwargs": {"integral_xn_exp_minus_x": ["n", "a", "b", "alpha"]}})

_MERTON = dict(params={"a": RAT, "b": RAT, "mu": RAT, "sigma": RAT, "x": RAT}, ret=RAT,
               self_attrs={"parameters.mu_j": RAT, "parameters.sigma_j": RAT, "parameters.intensity": RAT},
               const_exprs={"np.pi": ("pi_", RAT), "x==np.inf": ("is_pos_inf", "pred:x"), "x==-np.inf": ("is_neg_inf", "pred:x")},
               fn_params={"np.exp": "exp", "np.sqrt": "sqrt", "scipy.special.erf": "erf"})

_CGMY = dict(params={"a": RAT, "b": RAT, "alpha": RAT, "h": RAT, "u": RAT}, ret=RAT, err="(0 : Rat)", fuel="3",
             self_attrs={"parameters.c": RAT, "parameters.g": RAT, "parameters.m": RAT, "parameters.y": RAT},
             const_exprs={**_INF, "np.inf": ("pos_inf", RAT)},
             fn_params={"np.exp": "exp", "scipy.special.exp1": "exp1", "scipy.special.gamma": "gamma", "**": "rpow"},
             opaque_fns={"scipy.special.gammaincc": ("gammaincc", [RAT, RAT], RAT),
                         "scipy.special.gammainc": ("gammainc", [RAT, RAT], RAT)})

UNITS = [
    Unit("rpylib/tools/integral.py", [
        Fn("_helper_sum_fact_xk", params={"n": INT, "x": RAT}, ret=RAT),
        Fn("integral_xn_exp_minus_x", params={"n": INT, "a": RAT, "b": RAT, "alpha": RAT}, ret=RAT, err="(0 : Rat)", fuel="2",
           const_exprs={"a==-np.inf": ("a_is_neg_inf", BOOL), "b==np.inf": ("b_is_pos_inf", BOOL)},
           fn_params={"np.exp": "exp"}),
    ]),
    Unit("rpylib/model/levymodel/purejump/variancegamma.py", [
        Fn("_VGLevyMeasure.x_nu", **_VG),
        Fn("_VGLevyMeasure.integrate", **_VG),
        Fn("_VGLevyMeasure.integrate_against_x", **_VG),
        Fn("_VGLevyMeasure.integrate_against_xx", **_VG),
        Fn("_VGLevyMeasure.integrate_against_xn", **_VG),
    ]),
    Unit("rpylib/model/levymodel/mixed/merton.py", [
        Fn("_MertonLevyMeasure._helper_erf_aux", **_MERTON),
        Fn("_MertonLevyMeasure.integrate", **_MERTON),
        Fn("_MertonLevyMeasure.integrate_against_x", **_MERTON),
        Fn("_MertonLevyMeasure.integrate_against_xx", **_MERTON),
    ]),
    Unit("rpylib/model/levymodel/purejump/cgmy.py", [
        Fn("_CGMYLevyMeasure.__integrate_h_to_inf", **_CGMY),
        Fn("_CGMYLevyMeasure.__integrate_h_to_inf_for_xx", **_CGMY),
        Fn("_CGMYLevyMeasure.__integrate_levy_measure_a_to_inf", **_CGMY),
        Fn("_CGMYLevyMeasure.__integrate_levy_measure_inf_to_b", **_CGMY),
        Fn("_CGMYLevyMeasure.__integrate_levy_measure_a_to_b", **_CGMY),
        Fn("_CGMYLevyMeasure.integrate", **_CGMY),
        Fn("_CGMYLevyMeasure.integrate_against_x", **_CGMY),
        # the closed form of the straddling second moment (every other interval is scipy.integrate.quad: not a closed form)
        Fn("_CGMYLevyMeasure.integrate_against_xx#straddling", **{**_CGMY, "params": {"a": RAT, "b": RAT}},
           block=("c,g,m,y=", "returnfirst+second"), result="first + second"),
    ]),
]


# ---------------------------------------------------------------------------------------------------------------------
# directed search on the REAL implementation, run when an obligation of ProofsGen/SrcC09b.lean no longer checks.  The
# identities are the ones the (B)-theorems state and the integral the (A)-theorems' real instances are proved equal to
# (true of every correct implementation; references are mpmath special functions, independent of rpylib):
#   helper      _helper_sum_fact_xk(n, x) = n! sum_{k<=n} |x|^k/k!  (exact rational reference), H_{n+1} = (n+1) H_n + |x|^(n+1)
#   xn          integral_xn_exp_minus_x: tails = Gamma(n+1, alpha u)/alpha^(n+1), sign (-1)^n on the left, finite interval =
#               difference of tails, split at zero, additivity, integration by parts in n
#   vg          mass = c (E1(l a) - E1(l b)) one side of zero, x / xx / xn = c Gamma(n, l a, l b)/l^n, the two routes agree,
#               additivity, signs
#   merton      mass / x / xx = Gaussian moments (mpmath ncdf / npdf), additivity, 0 <= mass <= intensity
#   cgmy        mass / x one side of zero = c Gamma(k - y, r a, r b)/r^(k-y), additivity, xx across zero = lower gammas
REL = 1e-8


def _close(x, y, scale=0.0):
    import math
    if not (math.isfinite(x) and math.isfinite(y)):
        return x == y
    return abs(x - y) <= REL * max(abs(x), abs(y), scale) + 1e-13


def search(ctx, lits):
    import math
    import warnings
    from fractions import Fraction
    from types import SimpleNamespace as NS
    import mpmath as mp
    from rpylib.tools.integral import _helper_sum_fact_xk, integral_xn_exp_minus_x
    from rpylib.model.levymodel.purejump.variancegamma import _VGLevyMeasure
    from rpylib.model.levymodel.mixed.merton import _MertonLevyMeasure
    from rpylib.model.levymodel.purejump.cgmy import _CGMYLevyMeasure
    warnings.simplefilter("ignore")
    mp.mp.dps = 30
    INF = math.inf
    found = [0]

    def fail(name, inp, detail):
        ctx.fail("oracle", "c09.src.search", inp, {"name": name, "detail": detail})
        found[0] += 1

    def guarded(name, inp, thunk):
        """value of the implementation; an exception on an input of the stated domain is a failure"""
        try:
            return float(thunk())
        except Exception as e:
            fail(name + ".raised", inp, repr(e))
            return None

    fl = sorted({float(l) for l in lits if isinstance(l, (int, float)) and math.isfinite(l) and 0 < abs(l) < 50})
    lit_pts = sorted({x for l in fl for x in (l, -l, l + 2.0 ** -10, l - 2.0 ** -10, -l + 2.0 ** -10)})
    base_pts = [-3.0, -1.0, -0.25, 0.0, 0.5, 1.0, 2.5]
    pts = sorted(set(base_pts) | set(lit_pts[:30]))
    ints = sorted({int(l) for l in lits if isinstance(l, int) and 0 <= l <= 60})
    ns = sorted(set(range(0, 8)) | {12, 19, 20, 21, 22, 25, 30} | {v for l in ints for v in (l - 1, l, l + 1) if 0 <= v <= 60})
    pl = [l for l in fl if l > 0]                 # literal values usable as (positive) parameters
    alphas = sorted({0.5, 1.0, 2.0, 7.5} | set(pl))[:10]

    # ---- _helper_sum_fact_xk -------------------------------------------------------------------------------------------
    for n in ns:
        for x in [0.0, 0.5, -1.0, 2.0, -3.5] + lit_pts[:12]:
            inp = {"function": "_helper_sum_fact_xk", "n": n, "x": x}
            ctx.count("c09.src.search", inp, nontrivial=False)
            got = guarded("helper", inp, lambda: _helper_sum_fact_xk(n, x))
            if got is None:
                continue
            ax = Fraction(abs(x))
            want = float(math.factorial(n) * sum(ax ** k / math.factorial(k) for k in range(n + 1)))
            if not _close(got, want):
                fail("helper.value", inp, {"got": got, "n!*sum |x|^k/k!": want})
            if found[0] > 20:
                return

    # ---- integral_xn_exp_minus_x ---------------------------------------------------------------------------------------
    def tail_ref(n, al, u):                     # int_u^inf x^n e^{-al x} dx, u >= 0
        return float(mp.gammainc(n + 1, al * u) / mp.mpf(al) ** (n + 1))

    for n in [k for k in ns if k <= 30]:
        for al in alphas:
            tails = {}
            for u in [p for p in pts if p >= 0]:
                if al * u > 200:
                    continue
                inp = {"function": "integral_xn_exp_minus_x", "n": n, "a": u, "b": "inf", "alpha": al}
                ctx.count("c09.src.search", inp, nontrivial=False)
                t = guarded("xn.tail", inp, lambda: integral_xn_exp_minus_x(n, u, INF, al))
                if t is None:
                    continue
                tails[u] = t
                want = tail_ref(n, al, u)
                if not _close(t, want):
                    fail("xn.tail", inp, {"got": t, "Gamma(n+1, alpha u)/alpha^(n+1)": want})
                inp2 = {"function": "integral_xn_exp_minus_x", "n": n, "a": "-inf", "b": -u, "alpha": al}
                lt = guarded("xn.left_tail", inp2, lambda: integral_xn_exp_minus_x(n, -INF, -u, al))
                if lt is not None and not _close(lt, (-1) ** n * want):
                    fail("xn.left_tail", inp2, {"got": lt, "(-1)^n Gamma(n+1, alpha |b|)/alpha^(n+1)": (-1) ** n * want})
            for a in pts:
                for b in pts:
                    if a > b or al * max(abs(a), abs(b)) > 200:
                        continue
                    inp = {"function": "integral_xn_exp_minus_x", "n": n, "a": a, "b": b, "alpha": al}
                    v = guarded("xn.value", inp, lambda: integral_xn_exp_minus_x(n, a, b, al))
                    if v is None:
                        continue
                    ta, tb = tails.get(abs(a)), tails.get(abs(b))
                    if ta is None or tb is None:
                        continue
                    if a >= 0:
                        want = ta - tb
                    elif b <= 0:
                        want = (-1) ** n * (tb - ta)
                    else:
                        t0 = tails.get(0.0)
                        if t0 is None:
                            continue
                        want = (-1) ** n * (t0 - ta) + (t0 - tb)
                    if not _close(v, want, scale=max(abs(ta), abs(tb))):
                        fail("xn.interval", inp, {"got": v, "from the tails": want})
                    if found[0] > 20:
                        return

    # ---- variance gamma -------------------------------------------------------------------------------------------------
    def gam_pos(k, y, r, a, b):                  # int_a^b x^(k-1-y) e^{-r x} dx, 0 <= a <= b <= inf (a > 0 unless k - y > 0)
        z = mp.mpf(k) - mp.mpf(y)
        up = lambda t: (mp.gamma(z) if t == 0 else mp.gammainc(z, mp.mpf(r) * t)) if t < INF else mp.mpf(0)
        return float((up(a) - up(b)) / mp.mpf(r) ** z)

    vg_params = [(1.3, 6.0, 9.5), (0.4, 14.0, 3.25)] + [(c, lm, lp) for c in pl[:3] for lm in pl[:2] for lp in pl[-2:]]
    one_sided = [(a, b) for a in pts + [INF] for b in pts + [INF] if 0 <= a <= b and a < INF]
    for c, lm, lp in vg_params[:8]:
        nu = _VGLevyMeasure(NS(_c=c, _lambda_m=lm, _lambda_p=lp))
        prm = {"family": "vg", "c": c, "lambda_m": lm, "lambda_p": lp}
        for a, b in one_sided:
            if max(lm, lp) * (b if b < INF else a) > 200:
                continue
            for side in (+1, -1):
                r = lp if side > 0 else lm
                A, B = (a, b) if side > 0 else (-b, -a)
                inp = {**prm, "a": A, "b": B}
                ctx.count("c09.src.search", inp, nontrivial=False)
                if a > 0:
                    v = guarded("vg.mass", inp, lambda: nu.integrate(A, B))
                    want = c * gam_pos(0, 0.0, r, a, b)
                    if v is not None and (not _close(v, want) or v < 0):
                        fail("vg.mass", inp, {"got": v, "c*(E1(l a) - E1(l b))": want})
                for k, route in ((1, "integrate_against_x"), (2, "integrate_against_xx"), (1, "xn"), (2, "xn"), (3, "xn"), (5, "xn")):
                    want = side ** k * c * gam_pos(k, 0.0, r, a, b)
                    v = guarded("vg." + route, {**inp, "n": k},
                                lambda: getattr(nu, route)(A, B) if route != "xn" else nu.integrate_against_xn(A, B, k))
                    if v is not None and not _close(v, want, scale=abs(c * gam_pos(k, 0.0, r, 0.0, INF)) * 1e-4):
                        fail("vg.moment", {**inp, "n": k, "route": route}, {"got": v, "c*Gamma(n, l a, l b)/l^n with its sign": want})
                if found[0] > 20:
                    return
        for a in pts:
            for b in pts:
                for d in pts:
                    if not a <= b <= d:
                        continue
                    for k, f in ((1, nu.integrate_against_x), (2, nu.integrate_against_xx),
                                 (3, lambda u, v: nu.integrate_against_xn(u, v, 3))):
                        inp = {**prm, "a": a, "b": b, "c_point": d, "n": k}
                        try:
                            whole, parts = float(f(a, d)), float(f(a, b)) + float(f(b, d))
                        except Exception as e:
                            fail("vg.additivity.raised", inp, repr(e))
                            continue
                        if not _close(whole, parts, scale=abs(c) / min(lm, lp) ** k * 1e-3):
                            fail("vg.additivity", inp, {"whole": whole, "sum of the parts": parts})
                    if found[0] > 20:
                        return

    # ---- Merton -----------------------------------------------------------------------------------------------------------
    me_params = [(0.05, 0.2, 3.0), (0.5, 1.5, 0.7)] + [(mu, sg, 2.0) for mu in pl[:3] for sg in pl[:3]]
    for mu, sg, lam in me_params[:8]:
        nu = _MertonLevyMeasure(NS(mu_j=mu, sigma_j=sg, intensity=lam))
        prm = {"family": "merton", "mu_j": mu, "sigma_j": sg, "intensity": lam}

        def mom(k, a, b):
            za, zb = (mp.mpf(a) - mu) / sg if a > -INF else -mp.inf, (mp.mpf(b) - mu) / sg if b < INF else mp.inf
            P = mp.ncdf(zb) - mp.ncdf(za)
            pa, pb = (mp.npdf(za) if a > -INF else 0), (mp.npdf(zb) if b < INF else 0)
            if k == 0:
                return float(lam * P)
            if k == 1:
                return float(lam * (mu * P - sg * (pb - pa)))
            ea, eb = ((mu + a) * pa if a > -INF else 0), ((mu + b) * pb if b < INF else 0)
            return float(lam * ((mu * mu + sg * sg) * P - sg * (eb - ea)))
        ends = [-INF] + pts + [INF]
        for a in ends:
            for b in ends:
                if a > b or (a == b and abs(a) == INF):
                    continue
                for k, f in ((0, nu.integrate), (1, nu.integrate_against_x), (2, nu.integrate_against_xx)):
                    inp = {**prm, "a": a, "b": b, "n": k}
                    ctx.count("c09.src.search", inp, nontrivial=False)
                    v = guarded("merton.moment", inp, lambda: f(a, b))
                    if v is None:
                        continue
                    want = mom(k, a, b)
                    if not _close(v, want, scale=lam * (abs(mu) + sg) ** k * 1e-4):
                        fail("merton.moment", inp, {"got": v, "Gaussian moment": want})
                    if k == 0 and not (-1e-12 <= v <= lam * (1 + 1e-9)):
                        fail("merton.mass_bounds", inp, {"got": v, "intensity": lam})
                if found[0] > 20:
                    return

    # ---- CGMY -------------------------------------------------------------------------------------------------------------
    cg_params = [(1.1, 6.0, 9.0, y) for y in (-0.5, 0.0, 0.5, 1.0, 1.5)] + [(0.7, 12.0, 4.0, y) for y in fl[:3] if y < 2]
    for c, g, m, y in cg_params[:8]:
        nu = _CGMYLevyMeasure(NS(c=c, g=g, m=m, y=y))
        prm = {"family": "cgmy", "c": c, "g": g, "m": m, "y": y}
        for a, b in one_sided:
            if a <= 0 or max(g, m) * (b if b < INF else a) > 200:
                continue
            for side in (+1, -1):
                r = m if side > 0 else g
                A, B = (a, b) if side > 0 else (-b, -a)
                inp = {**prm, "a": A, "b": B}
                ctx.count("c09.src.search", inp, nontrivial=False)
                v = guarded("cgmy.mass", inp, lambda: nu.integrate(A, B))
                want = c * gam_pos(0, y, r, a, b)
                if v is not None and not _close(v, want, scale=abs(c * gam_pos(0, y, r, a, INF)) * 1e-6):
                    fail("cgmy.mass", inp, {"got": v, "c*Gamma(-y, r a, r b)/r^(-y)": want})
                v = guarded("cgmy.x", inp, lambda: nu.integrate_against_x(A, B))
                want = side * c * gam_pos(1, y, r, a, b)
                if v is not None and not _close(v, want, scale=abs(c * gam_pos(1, y, r, a, INF)) * 1e-6):
                    fail("cgmy.x", inp, {"got": v, "c*Gamma(1-y, r a, r b)/r^(1-y) with its sign": want})
            if found[0] > 20:
                return
        for a in [p for p in pts if p < 0]:
            for b in [p for p in pts if p > 0]:
                inp = {**prm, "a": a, "b": b, "n": 2}
                v = guarded("cgmy.xx", inp, lambda: nu.integrate_against_xx(a, b))
                want = c * gam_pos(2, y, m, 0.0, b) + c * gam_pos(2, y, g, 0.0, -a)
                if v is not None and not _close(v, want):
                    fail("cgmy.xx", inp, {"got": v, "c*(gamma(2-y, m b)/m^(2-y) + gamma(2-y, g|a|)/g^(2-y))": want})
