"""Per-property plug-ins of the source-derived tie (harness/srctie.py).

A module `harness/srcspec/Cxx.py` defines
    UNITS : list[harness.py2lean.Unit]      the functions of /repo translated to Lean for property Cxx (appended to the
                                            property's entry of srctie.SPEC when there is one)
    search(ctx, lits)  (optional)           directed search for a failing input on the implementation, run when an
                                            obligation of lean/RpylibModel/ProofsGen/SrcCxx.lean no longer checks; `lits` are
                                            the numeric literals harvested from the current source of the translated functions
"""
