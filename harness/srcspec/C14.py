"""Second source-derived tie for C14 (enumerations are bijections).  The first tie (srctie.SPEC["C14"]) holds the 2-d pairing
functions, the N <-> Z folding and PairingToZ1d.pair; this plug-in adds the code that builds the n-dimensional and the signed
enumerations on top of them.  Translated into lean/RpylibModel/Generated/SrcC14b.lean (namespace Rpylib.Src.C14b), obligations
in lean/RpylibModel/ProofsGen/SrcC14b.lean, audit list lean/Audit/C14Srcb.lean.

Translated (rpylib/distribution/pairing.py unless said otherwise) and what stands for their collaborators:
  _integer_root                       `floor(z ** (1 / n) + 1e-8)` is the parameter `est` (any integer >= 0); the two while loops have
                                      fuel est + z + 1 (proved sufficient)
  Pairing.pairing / projection        `self.pairing2d`, `self.projection2d` are function parameters (a 2-tuple is a 2-element list);
                                      `self.pairing / self.projection` are the base-class methods (true for Szudzik, PepisKalmar,
                                      HyperbolicPairing, Cantor.pairing: they do not override them)
  RosenbergStrong.pairing / projection   `_integer_root` is the function parameter `iroot` (assumed exact: proved for the translated
                                      `_integer_root` with any estimates); `@lru_cache` is ignored (pure functions)
  mapping_to_z, projection_to_z       again (the plug-in's file only sees its own unit)
  PairingToZd.pairing / pair / projection / project   `self.n_pairing.pairing / projection` are function parameters
  PairingToZ1d._projection_with_switch_to_right / _left   `_switch`, `_kk` are state variables: result = (value, _switch, _kk)
  StatesManager.__init__#bound        the statement `self.max_frontier_indices = ..`; `getattr(domain, "max_inside_index", 0)` is a parameter
  Domain.compute_total_number_of_states_and_frontier#lines   from `self.max_inside_index = 0` to the end of the loop over the lines;
                                      `lazy_indices_product(all_sizes)` is the list parameter `index_tuples`, `pairing.pair` and
                                      `state_increment -> self.outside(self.grid[origin_coordinate + state_increment])` function parameters
  rpylib/numerical/numbers.py a_n     `floor(sqrt(n))` is the parameter `sqrt_x`
  rpylib/numerical/numbers.py upper_bound_a_n   the three `inv_guess_a(..)` calls are integer parameters, `3 * z ** (1 / 4)` a rational
                                      one, `a_n` a function parameter; loop fuel n_guess + n_high_bound
Not translated: HyperbolicPairing.pairing2d / projection2d (sympy.factorint, numpy float division), lazy_indices_product (generator
with gmpy2.qdiv), StatesManager.project_index_to_state_increment (while loop with return and attribute stores), PairingToZ1d.__init__
/ project (method selection, @cache), the Boundary classes (numpy), inv_guess_a (scipy root search).
"""
from __future__ import annotations

from harness.py2lean import Fn, Unit, INT, RAT, BOOL

LI = "List Int"
NIL = "([] : List Int)"

_P2 = {"self.pairing2d": ("pairing2d", [INT, INT], INT), "self.projection2d": ("projection2d", [INT], LI)}
_ZD = dict(self_attrs={"dimension": INT, "_omitting_zero": INT},
           opaque_fns={"self.n_pairing.pairing": ("n_pairing", [LI], INT),
                       "self.n_pairing.projection": ("n_projection", [INT, INT], LI)},
           opts={"lists": True})

UNITS = [
    Unit("rpylib/distribution/pairing.py", [
        Fn("_integer_root", params={"z": INT, "n": INT}, ret=INT, err="(-1 : Int)",
           const_exprs={"floor(z**(1/n)+1e-08)": ("est", INT)},
           opts={"loop_fuel": "Int.toNat est + Int.toNat z + 1"}),
        Fn("Pairing.pairing", params={"x": LI}, ret=INT, opaque_fns=_P2, fuel="List.length x", err="(-1 : Int)",
           opts={"lists": True}),
        Fn("Pairing.projection", params={"z": INT, "dim": INT}, ret=LI, opaque_fns=_P2, fuel="Int.toNat dim", err=NIL,
           opts={"lists": True}),
        Fn("RosenbergStrong.pairing", params={"x": LI}, ret=INT, fuel="List.length x", err="(-1 : Int)", opts={"lists": True}),
        Fn("RosenbergStrong.projection", params={"z": INT, "dim": INT}, ret=LI, fuel="Int.toNat dim", err=NIL,
           opaque_fns={"_integer_root": ("iroot", [INT, INT], INT)}, opts={"lists": True}),
        Fn("mapping_to_z"), Fn("projection_to_z"),
        Fn("PairingToZd.pairing", params={"x": LI}, ret=INT, **_ZD),
        Fn("PairingToZd.pair", params={"x": LI}, ret=INT, **_ZD),
        Fn("PairingToZd.projection", params={"n": INT}, ret=LI, **_ZD),
        Fn("PairingToZd.project", params={"x": INT}, ret=LI, **_ZD),
        Fn("PairingToZ1d._projection_with_switch_to_right", lean_name="PairingToZ1d_switch_to_right", params={"x": INT},
           ret="Int × Bool × Int", self_attrs={"left": INT}, stores={"_switch": BOOL, "_kk": INT},
           opts={"lists": True, "value_and_stores": True}),
        Fn("PairingToZ1d._projection_with_switch_to_left", lean_name="PairingToZ1d_switch_to_left", params={"x": INT},
           ret="Int × Bool × Int", self_attrs={"right": INT}, stores={"_switch": BOOL, "_kk": INT},
           opts={"lists": True, "value_and_stores": True}),
        Fn("StatesManager.__init__#bound", lean_name="StatesManager_bound",
           block=("self_max_frontier_indices =", "self_max_frontier_indices ="), params={"frontier_states": LI, "domain": "obj"},
           stores={"max_frontier_indices": INT}, const_exprs={"getattr(domain,'max_inside_index',0)": ("max_inside_index", INT)},
           opts={"lists": True}),
        Fn("Domain.compute_total_number_of_states_and_frontier#lines", lean_name="Domain_frontier_lines",
           block=("self_max_inside_index = 0", "for ks in"), result="frontier_state_indices",
           params={"frontier_state_indices": LI, "all_sizes": LI, "origin_last_coordinate": INT, "left_size": INT,
                   "right_size": INT, "pairing": "obj", "origin_coordinate": "obj"},
           ret="(List Int) × Int", stores={"max_inside_index": INT},
           const_calls={"lazy_indices_product(all_sizes)": ("index_tuples", "List (List Int)")},
           opaque_fns={"pairing.pair": ("pair", [LI], INT)},
           opts={"lists": True, "value_and_stores": True, "local_types": {"outside_states": "List Bool", "all_states": LI},
                 "call_views": {"self.outside(self.grid[origin_coordinatestate_increment])": ("outside", ["state_increment"], BOOL)}}),
    ]),
    Unit("rpylib/numerical/numbers.py", [
        Fn("a_n", params={"n": INT}, ret=INT, const_exprs={"floor(sqrt(n))": ("sqrt_x", INT)}, opts={"lists": True}),
        Fn("upper_bound_a_n", params={"z": INT}, ret=INT, err="(-1 : Int)",
           const_exprs={"3*z**(1/4)": ("delta_c", RAT)},
           const_calls={"inv_guess_a(max(0,z-delta_c))": ("n_low_bound", INT), "inv_guess_a(z)": ("n_guess", INT),
                        "inv_guess_a(zdelta_c)": ("n_high_bound", INT)},
           opaque_fns={"a_n": ("a", [INT], INT)},
           opts={"lists": True, "loop_fuel": "Int.toNat n_guess + Int.toNat n_high_bound"}),
    ]),
]


# ---------------------------------------------------------------------------------------------------------------------
# directed search on the REAL implementation, run when an obligation of ProofsGen/SrcC14b.lean no longer checks.  Every
# identity below is C14's own (true of every correct implementation): the integer root is exact; projection(pairing(v)) = v
# and pairing(projection(z, d)) = z with non-negative coordinates in every dimension; the signed enumerations are inverted by
# their index-of-state maps and never return the origin when it is omitted; the interval enumeration asked in increasing order
# hits every state once; the bound of the states enumeration is at least the index of every state inside the box; a_n is the
# divisor summatory function and upper_bound_a_n its inverse.  Inputs: the numeric literals of the current source of the
# translated functions (+ neighbours, squares, cubes, their roots) and a fixed structured family.
def search(ctx, lits):
    import itertools
    import numpy as np
    from rpylib.distribution import pairing as pg
    from rpylib.distribution.pairing import (Cantor, RosenbergStrong, Szudzik, PepisKalmar, PairingToZd, PairingToZ1d, Domain,
                                             Boundary, StatesManager)
    from rpylib.grid.spatial import CTMCGrid
    from rpylib.numerical.numbers import a_n, upper_bound_a_n

    found = [0]

    def fail(probe, inp, name, detail):
        ctx.fail("oracle", "c14.src.search." + probe, inp, {"name": name, "detail": detail})
        found[0] += 1

    ints = sorted({int(l) for l in lits if isinstance(l, int) and 0 <= l < 10 ** 40})
    near = sorted({v for l in ints for v in range(max(0, l - 3), l + 4)})
    small = sorted({v for v in near if v <= 60} | set(range(0, 9)))[:24]
    powers = sorted({m ** k + e for m in [v for v in near if v <= 10 ** 9][:80] + list(range(0, 12)) + [2 ** 16, 2 ** 26, 10 ** 6]
                     for k in (1, 2, 3, 4) for e in (-1, 0, 1) if m ** k + e >= 0})
    indices = sorted(set(range(0, 700)) | set(near) | set(powers))

    # ---- _integer_root ------------------------------------------------------------------------------------------------
    for z in indices:
        for n in (1, 2, 3, 4, 5):
            if n == 1 and z >= 2 ** 53:
                continue          # the library never asks for a first root (RosenbergStrong.projection returns early for dim = 1); the
                #                   float estimate of a huge z is off by up to z * 2^-53 and is corrected one unit per iteration
            inp = {"function": "_integer_root", "z": z, "n": n}
            ctx.count("c14.src.search", inp, nontrivial=False)
            try:
                r = int(pg._integer_root(z, n))
            except Exception as e:
                fail("root", inp, "_integer_root raised", repr(e))
                continue
            if not (r >= 0 and r ** n <= z < (r + 1) ** n):
                fail("root", inp, "not the largest m with m**n <= z", {"returned": r})
        if found[0] > 20:
            return

    # ---- n-dimensional pairings -----------------------------------------------------------------------------------------
    kinds = (("szudzik", Szudzik, (2, 3, 4)), ("pepis", PepisKalmar, (2, 3)), ("rs", RosenbergStrong, (1, 2, 3, 4, 5)),
             ("cantor", Cantor, (2,)))
    for name, cls_, dims in kinds:
        for d in dims:
            p = cls_()
            zs = [z for z in indices if z < (10 ** 40 if name != "pepis" else 4000)]
            for z in zs:
                inp = {"function": f"{cls_.__name__}.projection/pairing", "z": z, "d": d}
                ctx.count("c14.src.search", inp, nontrivial=False)
                try:
                    v = tuple(int(c) for c in p.projection(z, d))
                    back = int(p.pairing(v)) if (d > 1 or name == "rs") else None
                except Exception as e:
                    fail("nd", inp, "projection / pairing raised", repr(e))
                    continue
                if len(v) != d or min(v) < 0 or back != z:
                    fail("nd", inp, "pairing(projection(z, d)) != z, or not a d-tuple of naturals", {"projection": list(v), "pairing": back})
                if found[0] > 20:
                    return
            cube = small[:7] if d <= 3 else small[:4]
            for v in itertools.product(cube if name != "pepis" else cube[:4], repeat=d):
                inp = {"function": f"{cls_.__name__}.pairing/projection", "x": list(v)}
                ctx.count("c14.src.search", inp, nontrivial=False)
                try:
                    z = int(p.pairing(tuple(v)))
                    w = tuple(int(c) for c in p.projection(z, d))
                except Exception as e:
                    fail("nd", inp, "pairing / projection raised", repr(e))
                    continue
                if z < 0 or w != tuple(v):
                    fail("nd", inp, "projection(pairing(x), len(x)) != x, or a negative index", {"pairing": z, "projection": list(w)})
                if found[0] > 20:
                    return

    # ---- Z^d ----------------------------------------------------------------------------------------------------------
    for name, cls_, dims in kinds[:3]:
        for d in [x for x in dims if x >= (1 if name == "rs" else 2)][:3]:
            for omit in (True, False):
                zd = PairingToZd(cls_(), d, omit)
                seen = {}
                for i in range(0, 400 if name != "pepis" else 120):
                    inp = {"function": "PairingToZd.project/pair", "pairing": name, "d": d, "omit_zero": omit, "index": i}
                    ctx.count("c14.src.search", inp, nontrivial=False)
                    try:
                        v = tuple(int(c) for c in zd.project(i))
                        back = int(zd.pair(v))
                    except Exception as e:
                        fail("zd", inp, "project / pair raised", repr(e))
                        continue
                    if len(v) != d or back != i or (omit and not any(v)) or v in seen:
                        fail("zd", inp, "pair(project(i)) != i, the origin returned although omitted, or a state twice",
                             {"state": list(v), "pair": back, "first_index_of_state": seen.get(v)})
                    seen[v] = i
                    if found[0] > 20:
                        return
                rng = sorted({s for c in small[:5] for s in (c, -c)})
                for v in itertools.product(rng, repeat=d):
                    if omit and not any(v):
                        continue
                    inp = {"function": "PairingToZd.pair/project", "pairing": name, "d": d, "omit_zero": omit, "state": list(v)}
                    try:
                        i = int(zd.pair(tuple(v)))
                        w = tuple(int(c) for c in zd.project(i))
                    except Exception as e:
                        fail("zd", inp, "pair / project raised", repr(e))
                        continue
                    if i < 0 or w != tuple(v):
                        fail("zd", inp, "project(pair(v)) != v, or a negative index", {"index": i, "project": list(w)})
                    if found[0] > 20:
                        return

    # ---- the interval enumeration, increasing order on a fresh object ------------------------------------------------------
    sides = sorted({v for v in small if 1 <= v <= 40} | {1, 2, 3, 5, 8})[:12]
    shapes1d = [(L, R) for L in sides for R in sides]
    shapes1d += [s_ for v in ints if v <= 3000 for sh in (1, 2, 4) for s_ in ((sh, v + sh + 2), (v + sh + 2, sh), (sh, 2 * v + sh + 3), (2 * v + sh + 3, sh))]
    for L, R in shapes1d:
        if True:
            for omit in (True, False):
                q = PairingToZ1d((-L, R), omit)
                n = L + R + (0 if omit else 1)
                got = []
                inp = {"function": "PairingToZ1d.project/pair", "interval": [-L, R], "omit_zero": omit}
                ctx.count("c14.src.search", inp, nontrivial=False)
                try:
                    for i in range(n):
                        v = int(q.project(i))
                        got.append(v)
                        if int(q.pair(v)) != i:
                            fail("z1d", dict(inp, index=i), "pair(project(i)) != i", {"state": v, "pair": int(q.pair(v))})
                            break
                except Exception as e:
                    fail("z1d", inp, "project / pair raised", repr(e))
                    continue
                want = sorted(x for x in range(-L, R + 1) if not (omit and x == 0))
                if sorted(got) != want and found[0] <= 20:
                    fail("z1d", inp, "the indices 0..n-1 asked in increasing order do not enumerate the interval exactly once",
                         {"returned": got})
                if found[0] > 20:
                    return

    # ---- the bound of the states enumeration on box grids ---------------------------------------------------------------------
    shapes = [(1, [3, 3]), (2, [5, 4]), (0, [3, 2]), (1, [3, 3, 3]), (2, [4, 5, 3]), (1, [2, 3, 2, 3])]
    for o, ns in shapes:
        for name, cls_, _ in kinds[:3]:
            if any(n_ <= o for n_ in ns):
                continue
            inp = {"function": "StatesManager.max_frontier_indices", "pairing": name, "origin_index": o, "axis_sizes": ns}
            ctx.count("c14.src.search", inp, nontrivial=False)
            try:
                g = CTMCGrid(h=1.0, origin_coordinate=o, axes=[np.array([float(k - o) for k in range(n_)]) for n_ in ns])
                zd = PairingToZd(cls_(), len(ns), True)
                sm = StatesManager(pairing=zd, domain=Domain(boundary=Boundary(), grid=g, pairing=zd), grid=g)
                worst = max((int(zd.pair(tuple(k - o for k in ks))), [k - o for k in ks])
                            for ks in itertools.product(*[range(n_) for n_ in ns]) if any(k != o for k in ks))
            except Exception as e:
                fail("bound", inp, "building the states manager raised", repr(e))
                continue
            if int(sm.max_frontier_indices) < worst[0]:
                fail("bound", inp, "the enumeration bound is below the index of a state inside the box: it would signal exhaustion "
                     "before returning that state", {"max_frontier_indices": int(sm.max_frontier_indices), "state": worst[1],
                                                     "index_of_state": worst[0]})
            if found[0] > 20:
                return

    # ---- a_n and its inverse ----------------------------------------------------------------------------------------------
    ns_ = sorted({v for v in near if v <= 10 ** 6} | set(range(0, 200)))
    for n in ns_:
        inp = {"function": "a_n", "n": n}
        ctx.count("c14.src.search", inp, nontrivial=False)
        try:
            got = int(a_n(n))
        except Exception as e:
            fail("a_n", inp, "a_n raised", repr(e))
            continue
        if got != sum(n // k for k in range(1, n + 1)):
            fail("a_n", inp, "a_n(n) is not the divisor summatory function sum(n // k, k = 1..n)", {"returned": got})
        if found[0] > 20:
            return
    for z in sorted(set(range(0, 600)) | {v for v in near if v <= 10 ** 6}):
        inp = {"function": "upper_bound_a_n", "z": z}
        ctx.count("c14.src.search", inp, nontrivial=False)
        try:
            r = int(upper_bound_a_n(z))
            ok = r >= 1 and sum((r - 1) // k for k in range(1, r)) <= z < sum(r // k for k in range(1, r + 1))
        except Exception as e:
            fail("a_n", inp, "upper_bound_a_n raised", repr(e))
            continue
        if not ok:
            fail("a_n", inp, "upper_bound_a_n(z) is not the n with a_n(n-1) <= z < a_n(n)", {"returned": r})
        if found[0] > 20:
            return
