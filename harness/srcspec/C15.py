"""C15 — source-derived tie for the assembly of simulated paths (DESIGN.md §9).

Translated on every run from /repo's current source (see lean/RpylibModel/Generated/SrcC15.lean):

  rpylib/process/levyprocess.py
    simulate_diffusion_with_brownian_increments      cumulative sum of (scaled std-dev x normal)
    SimulationFixedTimes.simulate_one_path           [0] ++ jumps, [0] ++ diffusion, the product dates
    SimulationFixedTimes.simulate_jumps              one jump value per product interval
    SimulationWithJumpTimes.simulate_one_path        [0] ++ times ++ [maturity], [0] ++ jumps ++ [final jump], [0] ++ diffusion
    SimulationWithJumpTimes.simulate_jumps           the loop over the product intervals: jump times, running sum of the increments
    SimulationWithJumpTimes.simulate_diffusion       scaled normals, cumulative
    SimulationMaximumStep.simulate_jumps             no jump -> as is, else build_finer_grid
  rpylib/process/markovchain/markovchain.py
    MCSimulationFixedTimes.project                   last cumulative value of each slice (0 for an empty slice)
    MCSimulationMaximumStep.simulate_jumps           no jump -> as is, else build_finer_grid
  rpylib/process/coupling/couplingmarkovchain.py
    CouplingSimulation.coupling_states_for_a_slice   running sum of the coupled state values from the origin
    CouplingSimulationWithJumpTimes.simulate_diffusion_with_coupling   fine / coarse diffusion from the same normals

Collaborators are parameters of the translated definitions (universally quantified in the theorems).  Everything that draws
random numbers (`nb_jump_dt`, `jump_times_from_nb_of_jumps`, `jump_increment`, `np.random.normal`, the pre-drawn Poisson deque,
`self.simulate_jumps`, `self.simulate_diffusion`, `coupling_state`) is a *variate stream* (first argument type `@`,
harness/py2lean.py PyLite 4): the Lean function takes the tag [call site, loop positions], so every dynamic call may return a
different value, as the real sampler does, and calling a sampler twice is visible in the translation.  (`super().simulate_jumps()`
is not a dotted name: it stays a constant of the translation, called once in the validated source.)

Not translatable (stay tied by the behavioural correspondence only): the two `_build_finer_grid` closures (nested functions,
`while` loop over fancy-indexed `np.insert` / `np.where` / `np.flatnonzero`), `SimulationFixedTimes.simulate_diffusion` (the
pre-drawn normals are a (dimension, dates) nested list that `np.cumsum` flattens), `helper_simulate_markov_chain` and the
`simulate_markov_chain` methods (lists of arrays filled in place, `MarkovChain` objects), the 2-row stacking
`diff[PT.FP, 1:] = ..` of the coupled simulators and everything in couplinglevycopula.py (2-d / 3-d arrays).
"""
from __future__ import annotations

from harness.py2lean import Fn, Unit, INT, RAT, BOOL  # noqa: F401

LR = "List Rat"
LI = "List Int"
PAIR = "(List Rat) × (List Rat)"              # parenthesised: a type starting with `List ` is read as a list
PATH = "(List Rat) × (List Rat) × (List Rat)"          # the arguments of StochasticJumpPath(times, diffusion, jumps)

UNITS = [
    Unit("rpylib/process/levyprocess.py", [
        Fn("simulate_diffusion_with_brownian_increments", params={"scaled_stddev": LR, "brownian_increments": LR}, ret=LR),
        Fn("SimulationFixedTimes.simulate_one_path", ret=PATH,
           self_attrs={"_times": LR, "_sqrt_dts": LR},
           opaque_fns={"self.simulate_jumps": ("sim_jumps", ["@"], LR),
                       "self.simulate_diffusion": ("simulate_diffusion", ["@", LR], LR),
                       "StochasticJumpPath": ("mk_path", [LR, LR, LR], PATH)}),
        Fn("SimulationFixedTimes.simulate_jumps", ret=LR,
           opaque_fns={"self._poisson_rv.popleft": ("pop_counts", ["@"], LI),
                       "self.process.model.jump_increment": ("jump_increment", ["@", INT], LR)}),
        Fn("SimulationWithJumpTimes.simulate_one_path", ret=PATH,
           self_attrs={"_maturity": RAT},
           fn_params={"np.sqrt": "sqrt"},
           opaque_fns={"self.simulate_jumps": ("sim_jumps", ["@"], PAIR),
                       "self.simulate_diffusion": ("simulate_diffusion", ["@", LR], LR),
                       "StochasticJumpPath": ("mk_path", [LR, LR, LR], PATH)}),
        Fn("SimulationWithJumpTimes.simulate_jumps", ret=PAIR,
           self_attrs={"_times": LR},
           opaque_fns={"self.process.jump_times_from_nb_of_jumps": ("jump_offsets", ["@", RAT, INT], LR),
                       "self.process.nb_jump_dt": ("nb_jump_dt", ["@", RAT], INT),
                       "self.process.model.jump_increment": ("jump_increment", ["@", INT], LR)}),
        Fn("SimulationWithJumpTimes.simulate_diffusion", params={"sqrt_dts": LR}, ret=LR,
           const_calls={"self.process.model.diffusion_coefficient()": ("sigma", RAT)},
           opaque_fns={"np.random.normal": ("normal", ["@", INT], LR)}),
        Fn("SimulationMaximumStep.simulate_jumps", ret=PAIR,
           const_calls={"super().simulate_jumps()": ("sim_jumps", PAIR)},
           opaque_fns={"self.build_finer_grid": ("build_finer_grid", [LR, LR], PAIR)}),
    ]),
    Unit("rpylib/process/markovchain/markovchain.py", [
        Fn("MCSimulationFixedTimes.project", params={"values": "List (List Rat)"}, ret=LR),
        Fn("MCSimulationMaximumStep.simulate_jumps", ret=PAIR,
           const_calls={"super().simulate_jumps()": ("sim_jumps", PAIR)},
           opaque_fns={"self.build_finer_grid": ("build_finer_grid", [LR, LR], PAIR)}),
    ]),
    Unit("rpylib/process/coupling/couplingmarkovchain.py", [
        Fn("CouplingSimulation.coupling_states_for_a_slice", params={"slice_fine_states": LI}, ret=LR,
           self_attrs={"coupling_process.grid.origin": RAT},
           opaque_fns={"self.coupling_state": ("coupling_state", ["@", INT], RAT)}),
        Fn("CouplingSimulationWithJumpTimes.simulate_diffusion_with_coupling", params={"sqrt_dts": LR}, ret=PAIR,
           self_attrs={"coupling_process.equivalent_diffusion_coefficient_fine": RAT,
                       "coupling_process.equivalent_diffusion_coefficient_coarse": RAT},
           opaque_fns={"np.random.normal": ("normal", ["@", INT], LR)}),
    ]),
]


# ---------------------------------------------------------------------------------------------------------------------
# directed search on the REAL implementation, run when an obligation of ProofsGen/SrcC15.lean no longer checks.
# The identities are the property's (theorems (B) of ProofsGen/SrcC15.lean), evaluated on dyadic inputs (exact in floats).
def _pool(lits):
    base = [0.5, 0.25, -0.75, 2.0, 1.0, -1.5, 0.125, 3.0]
    extra = []
    for l in sorted(lits, key=lambda v: (abs(v), v)):
        try:
            f = float(l)
        except Exception:
            continue
        if f != f or abs(f) > 2.0 ** 40:
            continue
        for x in (f, -f, f + 1, f - 1, f / 2, f * 2, f + 2.0 ** -10, f - 2.0 ** -10):
            if x not in extra and x not in base:
                extra.append(x)
    return base, extra[:60]


def _lengths(lits):
    ns = set(range(0, 7))
    for l in lits:
        if isinstance(l, int) and 0 <= l <= 40:
            ns.update({l, l + 1, max(0, l - 1)})
    return sorted(ns)


def _vectors(n, base, extra, shift=0):
    """vectors of length n: the rotating base pattern, and each extra value placed at each position"""
    pat = [base[(shift + i) % len(base)] for i in range(n)]
    yield pat
    for v in extra:
        for p in range(n):
            w = list(pat)
            w[p] = v
            yield w


def search(ctx, lits):
    import itertools
    import numpy as np
    from collections import deque
    import rpylib.process.levyprocess as lp
    from rpylib.process.markovchain.markovchain import MCSimulationFixedTimes
    import rpylib.process.coupling.couplingmarkovchain as cm

    base, extra = _pool(lits)
    found = [0]

    class O:
        pass

    def bad(probe, inp, detail):
        ctx.fail("oracle", "c15.src.search." + probe, inp, {"name": probe, "detail": detail})
        found[0] += 1

    def run(probe, inp, fn):
        ctx.count("c15.src.search", {"probe": probe, **inp}, nontrivial=False)
        try:
            return True, fn()
        except AttributeError as e:          # the scripted stand-in lacks a name the function now uses: not the code's fault
            ctx.notes.append(f"c15.src.search.{probe}: scripted object incomplete ({e})")
            return False, None
        except Exception as e:
            bad(probe, inp, "raised " + repr(e))
            return False, None

    def close(a, b):
        return abs(a - b) <= 1e-12 * max(1.0, abs(a), abs(b))

    def runsum(xs):
        out, acc = [], 0.0
        for x in xs:
            acc += x
            out.append(acc)
        return out

    # 1. diffusion: running sums of stddev * normal (three functions)
    for n in _lengths(lits):
        for k, s in enumerate(_vectors(n, base, extra[:12])):
            if found[0] > 20:
                return
            z = [base[(3 + 2 * i + k) % len(base)] for i in range(n)]
            want = runsum([a * b for a, b in zip(s, z)])
            inp = {"stddev": s, "normals": z}
            ok, got = run("diffusion", inp, lambda: lp.simulate_diffusion_with_brownian_increments(np.array(s, dtype=float), np.array(z, dtype=float)))
            if ok and (len(got) != n or not all(close(float(g), w_) for g, w_ in zip(got, want))):
                bad("diffusion.running_sums", inp, {"got": [float(g) for g in got], "want": want})
            # SimulationWithJumpTimes.simulate_diffusion and the coupled version draw their normals with np.random.normal
            sig, sigc = base[k % len(base)], base[(k + 5) % len(base)]
            real_normal = np.random.normal
            try:
                drawn = [0]

                def fake_normal(*a, **kw):        # every draw returns other values: a second draw cannot pass for the first
                    drawn[0] += 1
                    return np.array([x + (drawn[0] - 1) for x in z], dtype=float)
                np.random.normal = fake_normal
                sim = lp.SimulationWithJumpTimes.__new__(lp.SimulationWithJumpTimes)
                sim.process = O()
                sim.process.model = O()
                sim.process.model.diffusion_coefficient = lambda: sig
                ok, got = run("jump_times.diffusion", {**inp, "sigma": sig}, lambda: sim.simulate_diffusion(np.array(s, dtype=float)))
                w1 = runsum([a * sig * b for a, b in zip(s, z)])
                if ok and (len(got) != n or not all(close(float(g), w_) for g, w_ in zip(got, w1))):
                    bad("jump_times.diffusion.running_sums", {**inp, "sigma": sig}, {"got": [float(g) for g in got], "want": w1})
                drawn[0] = 0
                c = cm.CouplingSimulationWithJumpTimes.__new__(cm.CouplingSimulationWithJumpTimes)
                c.coupling_process = O()
                c.coupling_process.equivalent_diffusion_coefficient_fine = sig
                c.coupling_process.equivalent_diffusion_coefficient_coarse = sigc
                ok, got = run("coupled.diffusion", {**inp, "sigma_fine": sig, "sigma_coarse": sigc},
                              lambda: c.simulate_diffusion_with_coupling(np.array(s, dtype=float)))
                wf, wc = runsum([a * sig * b for a, b in zip(s, z)]), runsum([a * sigc * b for a, b in zip(s, z)])
                if ok and (len(got[0]) != n or len(got[1]) != n or not all(close(float(g), w_) for g, w_ in zip(got[0], wf))
                           or not all(close(float(g), w_) for g, w_ in zip(got[1], wc))):
                    bad("coupled.diffusion.running_sums", {**inp, "sigma_fine": sig, "sigma_coarse": sigc},
                        {"got": [[float(g) for g in r] for r in got], "want": [wf, wc]})
            finally:
                np.random.normal = real_normal

    # 2. jump-time mode: assembly around given jump times / values
    for n in _lengths(lits):
        for k, jv in enumerate(_vectors(n, base, extra[:12], shift=1)):
            if found[0] > 20:
                return
            for T in [8.0] + [abs(x) + 8.0 for x in extra[:6]]:
                jt = [T * (i + 1) / (n + 1) / 1.0 for i in range(n)]
                sim = lp.SimulationWithJumpTimes.__new__(lp.SimulationWithJumpTimes)
                sim._maturity = T
                seen = {"jumps": 0, "diff": 0}

                def sj(seen=seen, jt=jt, jv=jv):   # a second draw returns other jumps: it cannot pass for the first
                    seen["jumps"] += 1
                    shift = seen["jumps"] - 1
                    return np.array([t + shift / 64 for t in jt], dtype=float), np.array([v + shift for v in jv], dtype=float)
                sim.simulate_jumps = sj

                def sd(sq, seen=seen):
                    seen["diff"] += 1
                    seen["sq"] = [float(x) for x in sq]
                    return np.cumsum(np.asarray(sq, dtype=float)) + (seen["diff"] - 1)
                sim.simulate_diffusion = sd
                inp = {"maturity": T, "jump_times": jt, "jump_values": jv}
                ok, p = run("jump_times.path", inp, sim.simulate_one_path)
                if not ok:
                    continue
                times, jumps, diff = [float(x) for x in p.jump_times], [float(x) for x in p.jump_path], [float(x) for x in p.diffusion_path]
                want_t = [0.0] + jt + [T]
                want_j = [0.0] + jv + [jv[-1] if jv else 0.0]
                steps = [b - a for a, b in zip(want_t, want_t[1:])]
                if times != want_t or jumps != want_j:
                    bad("jump_times.path.shape", inp, {"times": times, "jumps": jumps, "want_times": want_t, "want_jumps": want_j})
                elif len(diff) != len(times) or diff[0] != 0.0 or "sq" not in seen or len(seen["sq"]) != len(steps) \
                        or not all(close(a * a, b) for a, b in zip(seen["sq"], steps)) \
                        or not all(close(d, w_) for d, w_ in zip(diff[1:], runsum(seen["sq"]))):
                    bad("jump_times.path.diffusion_steps", inp, {"sqrt_dts": seen.get("sq"), "steps": steps, "diffusion": diff})
                if k > 40:
                    break

    # 3. jump-time mode: the loop over the product intervals (scripted samplers, unit / literal increments)
    totals = sorted({t for l in lits if isinstance(l, int) and 0 < l <= 200 for t in (l - 1, l, l + 1) if t > 0})
    directed = [c for t in totals for c in ((t,), (t // 2, t - t // 2), (0, t), (t // 3, 0, t - t // 3), (1,) * min(t, 12) + ((t - 12,) if t > 12 else ()))]
    for nd in (0, 1, 2, 3, 4, 6):
        family = directed if nd == 0 else itertools.islice(
            itertools.product(*[[0, 1, 2, 3] + [m for m in _lengths(lits) if 3 < m <= 9][:2]] * nd), 0, 200, 1 if nd < 3 else 7)
        for counts in family:
            nd = len(counts)
            if found[0] > 20:
                return
            dates = [0.0] + [float(2 * (i + 1)) for i in range(nd)]
            offs = [[2.0 * (j + 1) / (1 << c.bit_length()) for j in range(c)] for c in counts]     # dyadic, sorted, inside (0, dt)
            tot = sum(counts)
            for incs in itertools.islice(_vectors(tot, base, extra[:8], shift=2), 0, 30 if tot < 12 else 3):
                sim = lp.SimulationWithJumpTimes.__new__(lp.SimulationWithJumpTimes)
                sim.process, sim._times = O(), np.array(dates, dtype=float)
                sim.process.model = O()
                it_c, it_o, it_i = iter(counts), iter(offs), iter(incs)
                sim.process.nb_jump_dt = lambda dt: next(it_c)
                sim.process.jump_times_from_nb_of_jumps = lambda dt, n: np.array(next(it_o), dtype=float)
                sim.process.model.jump_increment = lambda n: np.array([next(it_i) for _ in range(n)], dtype=float)
                inp = {"dates": dates, "counts": list(counts), "offsets": offs, "increments": incs}
                ok, r = run("jump_times.loop", inp, sim.simulate_jumps)
                if not ok:
                    continue
                jt, jv = [float(x) for x in r[0]], [float(x) for x in r[1]]
                want_t = [dates[k_] + o for k_, os_ in enumerate(offs) for o in os_]
                want_v = runsum(incs)
                if jt != want_t or len(jv) != len(jt) or not all(close(a, b) for a, b in zip(jv, want_v)):
                    bad("jump_times.loop.running_sums", inp, {"times": jt, "values": jv, "want_times": want_t, "want_values": want_v})

    # 4. fixed dates: assembly, first date of the jump values, project, coupled slice
    for n in _lengths(lits):
        for k, vals in enumerate(itertools.islice(_vectors(n, base, extra[:12], shift=4), 0, 60)):
            if found[0] > 20:
                return
            dates = [float(i) for i in range(n + 1)]
            s = lp.SimulationFixedTimes.__new__(lp.SimulationFixedTimes)
            s._times, s._sqrt_dts = np.array(dates), np.ones(n)
            s.simulate_jumps = lambda: np.array(vals, dtype=float)
            s.simulate_diffusion = lambda sq: np.cumsum(np.asarray(sq, dtype=float) * 0.5)
            inp = {"dates": dates, "jump_values": vals}
            ok, p = run("fixed.path", inp, s.simulate_one_path)
            if ok:
                t_, j_, d_ = [float(x) for x in p.jump_times], [float(x) for x in p.jump_path], [float(x) for x in p.diffusion_path]
                if t_ != dates or j_ != [0.0] + vals or d_ != [0.0] + [0.5 * (i + 1) for i in range(n)]:
                    bad("fixed.path.shape", inp, {"times": t_, "jumps": j_, "diffusion": d_})
            # simulate_jumps: one value per interval, the first one = the sum of the first interval's draws
            counts = [(3 * i + k) % 4 for i in range(n)]
            draws = [[base[(i + j + k) % len(base)] for j in range(c)] for i, c in enumerate(counts)]
            if n and counts[0] and k < len(extra):
                draws[0][0] = extra[k]
            s2 = lp.SimulationFixedTimes.__new__(lp.SimulationFixedTimes)
            s2.process = O()
            s2.process.model = O()
            s2._poisson_rv = deque([list(counts)])
            it_d = iter(draws)
            s2.process.model.jump_increment = lambda n: np.array(next(it_d), dtype=float)
            inp = {"counts": counts, "draws": draws}
            ok, r = run("fixed.jumps", inp, s2.simulate_jumps)
            if ok and (len(r) != n or (n and not close(float(r[0]), sum(draws[0])))):
                bad("fixed.jumps.first_date", inp, {"got": [float(x) for x in r], "want_first": sum(draws[0]) if n else None})
            # project: one value per slice, the first one = the last value of the first slice (0 if empty)
            slices = [np.array(runsum(d), dtype=float) for d in draws]
            inp = {"slices": [[float(x) for x in sl] for sl in slices]}
            ok, r = run("ctmc.project", inp, lambda: MCSimulationFixedTimes.project(slices))
            if ok and (len(r) != n or (n and not close(float(r[0]), float(slices[0][-1]) if len(slices[0]) else 0.0))):
                bad("ctmc.project.first_date", inp, {"got": [float(x) for x in r]})
            # coupled slice: running sum of the coupled values from the origin
            origin = base[k % len(base)] if k % 3 else 0.0
            c = cm.CouplingSimulation.__new__(cm.CouplingSimulation)
            c.coupling_process = O()
            c.coupling_process.grid = O()
            c.coupling_process.grid.origin = origin
            it_v = iter(vals)
            c.coupling_state = lambda d: next(it_v)
            ds = [((i * 5 + k) % 7) - 3 for i in range(n)]
            inp = {"origin": origin, "fine_states": ds, "coupled_values": vals}
            ok, r = run("coupled.slice", inp, lambda: c.coupling_states_for_a_slice(np.array(ds, dtype=int)))
            want = [origin + x for x in runsum(vals)]
            if ok and (len(r) != n or not all(close(float(a), b) for a, b in zip(r, want))):
                bad("coupled.slice.running_sums", inp, {"got": [float(x) for x in r], "want": want})
