"""Source-derived tie for C07: the estimators of the standard Monte-Carlo engine.

Translated on every run (harness/py2lean.py, option `nd2`: a 2-d numpy array is the list of its rows):
  rpylib/montecarlo/statistic/tools.py      `mean`, `stddev`, `mc_stddev` on the (paths x payoff components) array
  rpylib/montecarlo/statistic/statistic.py  `Statistic.add` (row `simulation` of the array := the path's value),
                                            `MCStatistics._get_payoff_statistics` (raw or adjusted sample; an object = its array)
  rpylib/montecarlo/path.py                 `MCPath.discount` (payoff and control payoffs times the discount factor)
  rpylib/product/product.py                 `Product.__call__` (notional x payoff), `ControlVariates.helper_compute_coefficients`
                                            (the regression kernel: biased covariances, guard, pseudo-inverse, adjusted sample) and
                                            the loop of `ControlVariates.compute_coefficients` over the payoff components (two
                                            views: scalar prices / one price per component)
Abstract parameters (universally quantified in lean/RpylibModel/ProofsGen/SrcC07.lean): `sqrt` = `np.sqrt` (also inside `np.std`),
`pinv` = `np.linalg.pinv(matrix, rcond, hermitian)`, `pinv_raises` = "the try block raises LinAlgError", `payoff` = the payoff object
of a product (underlying -> one value per payoff component).
Not translated: `Engine.price` (simulates, drives objects), `MCPath.process` (object protocol), `MCStatistics.price / mc_stddev`
(return an object's array, `res[0] if res.size == 1 else res` changes type with the data).
"""
from harness.py2lean import Fn, Unit, INT, RAT, BOOL

MAT, VEC, TEN = "List (List Rat)", "List Rat", "List (List (List Rat))"

_KERNEL = dict(
    fn_params={"np.sqrt": "sqrt"},
    opaque_fns={"np.linalg.pinv": ("pinv", [MAT, RAT, BOOL], MAT)},
    opts={"nd2": True, "opaque_kwargs": {"np.linalg.pinv": ["a", "rcond", "hermitian"]},
          "try_raises": {"np.linalg.LinAlgError": "pinv_raises"}})

UNITS = [
    Unit("rpylib/montecarlo/statistic/tools.py", [
        # `shape[0] == 0` / `size == 0`: the branches for an array without rows return a value of another shape (zeros of the trailing
        # shape, which a list of rows cannot express; the float 0.0): the definitions are specialised to at least one path
        Fn("mean", params={"simulations": MAT}, ret=VEC, opts={"nd2": True, "static_tests": {"simulations.shape[0]==0": False}}),
        Fn("stddev", params={"simulations": MAT}, ret=VEC, fn_params={"np.sqrt": "sqrt"}, opts={"nd2": True}),
        Fn("mc_stddev", params={"simulations": MAT}, ret=VEC, fn_params={"np.sqrt": "sqrt"},
           opts={"nd2": True, "static_tests": {"simulations.size==0": False}}),
    ]),
    Unit("rpylib/montecarlo/statistic/statistic.py", [
        Fn("Statistic.add", params={"simulation": INT, "variable": VEC}, stores={"stats": MAT}, opts={"nd2": True}),
        # which sample the price / error are taken from: a Statistic object is read as its `stats` array
        Fn("MCStatistics._get_payoff_statistics", params={"no_control_variates": BOOL}, ret=MAT,
           self_attrs={"_payoff_statistics": MAT, "_payoff_statistics_with_cv": MAT},
           const_exprs={"isinstance(self._control_variates_statistics,NoStatistic)": ("no_control_statistics", BOOL)}),
    ]),
    Unit("rpylib/montecarlo/path.py", [
        Fn("MCPath.discount", params={"df": RAT}, stores={"payoff": VEC, "payoff_control_variates": MAT}, opts={"nd2": True}),
    ]),
    Unit("rpylib/product/product.py", [
        Fn("Product.__call__", params={"underlying": RAT}, ret=VEC, self_attrs={"notional": RAT},
           opaque_fns={"self.payoff": ("payoff", [RAT], VEC)}, opts={"nd2": True}, lean_name="Product_call"),
        Fn("ControlVariates.helper_compute_coefficients", params={"x": MAT, "y": VEC, "prices": VEC}, ret=VEC, **_KERNEL),
        # the loop over the payoff components, as a function of the two arrays X (paths x controls x components) and Y (paths x
        # components); `self.prices` is a list of floats (one price per control) or a list of vectors (one price per control and
        # component): one view per case of the `isinstance(self.prices[0], Real)` test
        Fn("ControlVariates.compute_coefficients#scalar_prices", params={"X": TEN, "Y": MAT}, ret=MAT, result="res",
           block=("res = np.empty_like(Y)", "for k, (xx, yy) in"), self_attrs={"prices": VEC},
           **{**_KERNEL, "opts": {**_KERNEL["opts"], "static_tests": {"isinstance(self.prices[0],Real)": True}}}),
        Fn("ControlVariates.compute_coefficients#vector_prices", params={"X": TEN, "Y": MAT}, ret=MAT, result="res",
           block=("res = np.empty_like(Y)", "for k, (xx, yy) in"), self_attrs={"prices": MAT},
           **{**_KERNEL, "opts": {**_KERNEL["opts"], "static_tests": {"isinstance(self.prices[0],Real)": False}}}),
    ]),
]


# ---------------------------------------------------------------------------------------------------------------------------
# directed search on the REAL implementation, run when an obligation of ProofsGen/SrcC07.lean no longer checks.
# The identities are the property's own (true for every correct implementation), evaluated by the harness in exact rational
# arithmetic on dyadic samples:
#   (M) tools.mean(S)[c]              = sum of column c / number of rows
#   (S) tools.stddev(S)[c]^2 (n - 1)  = sum of squared deviations of column c                      (n >= 2)
#   (E) tools.mc_stddev(S)[c]^2 n     = unbiased sample variance of column c, whatever the payoff dimension (n >= 2)
#   (A) Statistic.add at the indices 0..n-1 leaves exactly the n path values in the array, in order
#   (G) MCStatistics.price reads the adjusted sample exactly when controls are configured and not switched off, else the raw one
#   (D) MCPath.discount multiplies payoff and control payoffs by df;  (P) Product.__call__ = notional x payoff
#   (K) kernel: the result has one entry per path; prices = the controls' sample means => mean(result) = mean(Y); the sample
#       variance of the result never exceeds the raw one; one control with a non-degenerate variance: result = Y - (cov/var)(X - p)
#       (b* the sample regression coefficient); k well-conditioned controls: result = Y - b (X - p) with Sigma_X b = Sigma_XY
#   (C) compute_coefficients: column c of the adjusted array = kernel(X[:, :, c], Y[:, c], prices of component c)
# Samples: built from the numeric literals of the current source of the translated functions (as entries, sample sizes, discount
# factors, notionals, prices) and their neighbours, plus a fixed structured family (dyadic samples, 2..9 paths, 1..3 components,
# 1..3 controls, constant columns, collinear controls excluded from the coefficient identities).
def search(ctx, lits):
    import itertools
    import random
    from fractions import Fraction as F
    import numpy as np
    from rpylib.montecarlo.statistic import tools
    from rpylib.montecarlo.statistic.statistic import Statistic
    from rpylib.montecarlo.path import MCPath
    from rpylib.process.process import ProcessRepresentation
    from rpylib.product.product import ControlVariates, Product

    found = [0]

    def fail(name, inp, detail):
        found[0] += 1
        ctx.fail("oracle", "c07.src.search", inp, {"name": name, "detail": detail})

    def close(a, b, scale=1.0, tol=1e-9):
        return abs(float(a) - float(b)) <= tol * max(1.0, abs(float(b)), abs(float(a)), scale)

    def vec(v, d):
        """a value returned for a payoff of dimension d as a list of d floats (None: wrong shape)"""
        a = np.asarray(v, dtype=float)
        if a.ndim == 0 and d == 1:
            return [float(a)]
        return [float(t) for t in a.ravel()] if a.size == d else None

    def fmean(col):
        return sum(F(x) for x in col) / len(col)

    def fcov(a, b, ddof):
        ma, mb = fmean(a), fmean(b)
        return sum((F(x) - ma) * (F(y) - mb) for x, y in zip(a, b)) / (len(a) - ddof)

    rnd = random.Random(7)
    nums = sorted({float(x) for l in lits if isinstance(l, (int, float)) and abs(float(l)) < 1e9
                   for x in (l, -l, l + 1, l - 1, l * 2, l / 2, l + 0.5)})
    nums = [x for x in nums if x == x and abs(x) < 1e9 and (abs(x) > 1e-6 or x == 0.0)][:60]
    sizes = sorted({int(m) for l in lits if isinstance(l, (int, float)) and float(l) == int(l) and 1 <= abs(int(l)) <= 3000
                    for m in (abs(int(l)) - 1, abs(int(l)), abs(int(l)) + 1, 2 * abs(int(l))) if 2 <= m <= 3000} | set(range(2, 10)) | {16, 33})
    base = [0.0, 1.0, 2.0, -1.0, 0.5, 3.0, -2.5, 4.0, 7.0, 0.25, 10.0, -0.75, 5.5, 1.5, 6.0, -3.0, 12.0]

    def column(n, shift, extra=None, pos=None):
        """n dyadic values, non-constant for n >= 2; `extra` (a literal of the source) replaces one entry"""
        col = [base[(i * (2 * shift + 3) + shift) % len(base)] + (i // len(base)) * 0.125 for i in range(n)]
        if extra is not None:
            col[((shift + 1) if pos is None else pos) % n] = float(extra)
        return col

    def samples():
        """(rows) arrays of shape n x d"""
        for n in sizes:
            for d in (1, 2, 3):
                yield [[column(n, 3 * c + d)[i] for c in range(d)] for i in range(n)]
            if n <= 64:
                for e in nums[:25]:
                    for pos in ((None,) if n > 9 else (0, -1, None)):          # the literal as first / last / inner entry
                        yield [[column(n, 1, e, pos)[i], column(n, 2)[i]] for i in range(n)]
                        yield [[column(n, 4, e, pos)[i]] for i in range(n)]
        for n in (2, 3, 5):                           # a constant component next to a varying one
            yield [[4.0, column(n, 1)[i]] for i in range(n)]

    # ---- (M) (S) (E) ------------------------------------------------------------------------------------------------------
    for rows in samples():
        if found[0] > 12:
            return
        n, d = len(rows), len(rows[0])
        S = np.array(rows, dtype=float)
        inp = {"simulations": rows if n <= 40 else {"rows": n, "first": rows[:3], "columns": "column(n, 3c+d) of harness/srcspec/C07.py"}}
        ctx.count("c07.src.search", {"fn": "tools", "n": n, "d": d, "first": rows[0]}, nontrivial=False)
        try:
            with np.errstate(all="ignore"):
                m, s, e = vec(tools.mean(S), d), vec(tools.stddev(S), d), vec(tools.mc_stddev(S), d)
        except Exception as ex:
            fail("tools.mean / stddev / mc_stddev raises", inp, repr(ex))
            continue
        if m is None or s is None or e is None:
            fail("a statistic does not have one value per payoff component", inp,
                 {"mean": repr(tools.mean(S)), "stddev": repr(tools.stddev(S)), "mc_stddev": repr(tools.mc_stddev(S))})
            continue
        for c in range(d):
            col = [r[c] for r in rows]
            mu, vu = fmean(col), fcov(col, col, 1)
            sc = max(abs(x) for x in col) ** 2
            if not close(m[c], mu):
                fail("mean is not the arithmetic mean over the rows", inp, {"component": c, "got": m[c], "want": float(mu)})
                break
            if not close(s[c] ** 2 * (n - 1), vu * (n - 1), sc):
                fail("stddev is not the unbiased sample standard deviation", inp,
                     {"component": c, "stddev^2 (n-1)": s[c] ** 2 * (n - 1), "sum of squared deviations": float(vu * (n - 1))})
                break
            if not close(e[c] ** 2 * n, vu, sc):
                fail("mc_stddev is not the unbiased standard deviation over the root of the number of paths", inp,
                     {"component": c, "paths": n, "payoff dimension": d, "mc_stddev^2 n": e[c] ** 2 * n, "unbiased variance": float(vu)})
                break

    # ---- (A) (D) (P) ------------------------------------------------------------------------------------------------------
    for n in [k for k in sizes if k <= 200][:40]:
        for d in (1, 2, 3):
            if found[0] > 12:
                return
            rows = [[column(n, 3 * c + d)[i] for c in range(d)] for i in range(n)]
            inp = {"mc_paths": n, "payoff_dimension": d, "rows": rows if n <= 20 else rows[:3]}
            ctx.count("c07.src.search", {"fn": "Statistic.add", "n": n, "d": d}, nontrivial=False)
            try:
                st = Statistic("payoff", shape=(d,), mc_paths=n, process_representation=list(ProcessRepresentation)[0])
                st.stats[:] = 777.0
                for i, r in enumerate(rows):
                    st.add(i, np.array(r))
                got = np.asarray(st.stats, dtype=float)
            except Exception as ex:
                fail("Statistic.add raises", inp, repr(ex))
                continue
            if got.shape != (n, d) or not np.array_equal(got, np.array(rows)):
                bad_rows = [i for i in range(min(n, got.shape[0])) if not np.array_equal(got[i], np.array(rows[i]))][:5]
                fail("after add at the indices 0..n-1 the array is not the n path values in order", inp,
                     {"shape": list(got.shape), "first differing rows": bad_rows, "got": got[bad_rows].tolist() if bad_rows else None})
    # (G) which sample is reported: the adjusted one exactly when controls are configured and not switched off
    from rpylib.montecarlo.statistic.statistic import MCStatistics, NoStatistic
    for n, d, with_cv in itertools.product((2, 3, 7), (1, 2), (True, False)):
        if found[0] > 12:
            return
        raw = np.array([[column(n, 3 * c + d)[i] for c in range(d)] for i in range(n)])
        adj = raw * 0.5 + 1.0
        inp = {"raw": raw.tolist(), "adjusted": adj.tolist(), "controls_configured": with_cv}
        ctx.count("c07.src.search", {"fn": "_get_payoff_statistics", "n": n, "d": d, "cv": with_cv}, nontrivial=False)
        try:
            rep = list(ProcessRepresentation)[0]
            ps = Statistic("payoff", shape=(d,), mc_paths=n, process_representation=rep)
            ps.stats[:] = raw
            cs = Statistic("CV", shape=(1, d), mc_paths=n, process_representation=rep) if with_cv else NoStatistic()
            ms = MCStatistics(payoff_statistics=ps, control_variates_statistics=cs)
            ms._payoff_statistics_with_cv.stats = adj.copy()
            got = {flag: vec(ms.price(no_control_variates=flag), d) for flag in (False, True)}
        except Exception as ex:
            fail("MCStatistics.price raises", inp, repr(ex))
            continue
        for flag in (False, True):
            want = adj if (with_cv and not flag) else raw
            if got[flag] is None or not all(close(g, w_) for g, w_ in zip(got[flag], want.mean(axis=0))):
                fail("the reported price is not the mean of the " + ("adjusted" if (with_cv and not flag) else "raw") + " sample", inp,
                     {"no_control_variates": flag, "price": got[flag], "mean of the expected sample": want.mean(axis=0).tolist()})
    vals = sorted(set([1.0, 0.5, 0.9375, 2.0, 100.0, 0.0] + [x for x in nums if 0 <= x <= 1e6]))[:30]
    for df, notional in itertools.islice(itertools.product(vals, vals[::-1]), 0, 400, 3):
        if found[0] > 12:
            return
        inp = {"df": df, "notional": notional, "payoff": [1.5, -2.0, 4.0], "controls": [[1.0, 2.0, 3.0], [0.5, 0.25, 8.0]], "underlying": 3.0}
        ctx.count("c07.src.search", {"fn": "discount/__call__", "df": df, "notional": notional}, nontrivial=False)
        try:
            p = MCPath(deterministic_path=None, activate_spot_underlying=False)
            p.payoff, p.payoff_control_variates = np.array(inp["payoff"]), np.array(inp["controls"])
            p.discount(df)
            pr = Product(payoff_underlying=None, payoff=lambda u: np.array([u - 1.0, 2.0 * u, -u]), maturity=1.0, notional=notional)
            v = pr(3.0)
        except Exception as ex:
            fail("MCPath.discount / Product.__call__ raises", inp, repr(ex))
            continue
        if not np.allclose(p.payoff, df * np.array(inp["payoff"]), rtol=1e-12, atol=0) \
                or not np.allclose(p.payoff_control_variates, df * np.array(inp["controls"]), rtol=1e-12, atol=0):
            fail("discount does not multiply payoff and control payoffs by the discount factor", inp,
                 {"payoff": np.asarray(p.payoff).tolist(), "controls": np.asarray(p.payoff_control_variates).tolist()})
        if not np.allclose(v, notional * np.array([2.0, 6.0, -3.0]), rtol=1e-12, atol=0):
            fail("Product.__call__ is not notional x payoff", inp, {"got": np.asarray(v).tolist()})

    # ---- (K) ----------------------------------------------------------------------------------------------------------------
    def kernel_cases():
        for n in [k for k in sizes if k <= 400][:30]:
            for k in (1, 2, 3):
                x = [[column(n, 2 * j + k)[i] + (0.5 * i if j == 1 else 0.0) + (0.25 * i * i if j == 2 else 0.0) for j in range(k)] for i in range(n)]
                y = [column(n, 5)[i] + 0.75 * x[i][0] for i in range(n)]
                yield x, y, None
                yield x, y, [1.0 + j for j in range(k)]
            for e in nums[:12] if n > 12 else nums:
                for pos in ((None,) if n > 12 else (0, -1, None)):          # the literal as first / last / inner entry
                    x = [[v] for v in column(n, 1, e, pos)]
                    yield x, column(n, 6), [float(e)]
                    yield [[v] for v in column(n, 3)], column(n, 2, e, pos), [0.5]
        yield [[1.0], [1.0], [1.0]], [1.0, 2.0, 4.0], [0.5]                   # constant control: fallback
        yield [[1.0, 2.0], [2.0, 4.0], [4.0, 8.0], [7.0, 14.0]], [2.0, 3.0, 9.0, 11.0], [3.0, 6.0]      # collinear controls

    for x, y, prices in kernel_cases():
        if found[0] > 12:
            return
        n, k = len(x), len(x[0])
        cols = [[r[j] for r in x] for j in range(k)]
        means = [fmean(c) for c in cols]
        exact_prices = prices is None
        pr_ = [float(m) for m in means] if exact_prices else prices
        inp = {"x": x if n <= 30 else x[:3], "y": y if n <= 30 else y[:3], "prices": pr_, "paths": n}
        ctx.count("c07.src.search", {"fn": "helper_compute_coefficients", "n": n, "k": k, "first": x[0]}, nontrivial=False)
        try:
            with np.errstate(all="ignore"):
                res = np.asarray(ControlVariates.helper_compute_coefficients(np.array(x, dtype=float), np.array(y, dtype=float),
                                                                              np.array(pr_, dtype=float)), dtype=float)
        except Exception as ex:
            fail("helper_compute_coefficients raises", inp, repr(ex))
            continue
        if res.shape != (n,):
            fail("the adjusted sample does not have one entry per path", inp, {"shape": list(res.shape)})
            continue
        vy = fcov(y, y, 0)
        sc = max(1.0, max(abs(v) for v in y)) ** 2
        vres = float(np.var(res))
        if vres > float(vy) + 1e-9 * sc:
            fail("the sample variance of the adjusted sample exceeds the raw one", inp, {"adjusted": vres, "raw": float(vy)})
            continue
        if exact_prices and all(float(m) == p for m, p in zip(means, pr_)) and not close(float(np.mean(res)), fmean(y), tol=1e-9):
            fail("controls' sample means equal their prices but the adjusted mean differs from the raw mean", inp,
                 {"adjusted mean": float(np.mean(res)), "raw mean": float(fmean(y))})
            continue
        sx = [[fcov(a, b, 0) for b in cols] for a in cols]
        sxy = [fcov(a, y, 0) for a in cols]
        if k == 1 and sx[0][0] >= F(1, 10 ** 6):
            b = sxy[0] / sx[0][0]
            want = [F(yi) - b * (F(r[0]) - F(pr_[0])) for yi, r in zip(y, x)]
            if not all(close(g, w_, sc ** 0.5) for g, w_ in zip(res, want)):
                fail("one control: the adjusted sample is not Y - (cov/var)(X - price)", inp,
                     {"b*": float(b), "got": res[:6].tolist(), "want": [float(w_) for w_ in want[:6]]})
                continue
        if k >= 2 and min(abs(v) for row in sx for v in row) >= F(1, 10 ** 6):
            A = np.array([[float(v) for v in row] for row in sx])
            if np.linalg.cond(A) < 1e6:
                Xc = np.array(x, dtype=float) - np.array(pr_, dtype=float)
                b, *_ = np.linalg.lstsq(Xc, np.array(y, dtype=float) - res, rcond=None)
                if np.linalg.matrix_rank(Xc) == k and not np.allclose(A @ b, np.array([float(v) for v in sxy]), rtol=1e-7, atol=1e-9 * sc):
                    fail("k controls: the coefficients of the adjusted sample do not solve the normal equations", inp,
                         {"b": b.tolist(), "Sigma_X b": (A @ b).tolist(), "Sigma_XY": [float(v) for v in sxy]})
                    continue

    # ---- (C) ----------------------------------------------------------------------------------------------------------------
    class _O:
        pass

    for n, k, d, vector_prices in itertools.product((3, 4, 6, 9), (1, 2), (1, 2, 3), (False, True)):
        if found[0] > 12:
            return
        X = np.array([[[column(n, 2 * j + 3 * c + 1)[i] + (0.5 * i if j == 1 else 0.0) for c in range(d)] for j in range(k)] for i in range(n)])
        Y = np.array([[column(n, 5 + c)[i] + 0.75 * X[i][0][c] for c in range(d)] for i in range(n)])
        prices = [np.array([1.0 + j + 0.5 * c for c in range(d)]) for j in range(k)] if vector_prices else [1.0 + j for j in range(k)]
        inp = {"X": X.tolist(), "Y": Y.tolist(), "prices": [p.tolist() if vector_prices else p for p in prices]}
        ctx.count("c07.src.search", {"fn": "compute_coefficients", "n": n, "k": k, "d": d, "vector_prices": vector_prices}, nontrivial=False)
        try:
            cv = ControlVariates.__new__(ControlVariates)
            cv.prices = prices
            st = _O()
            st._control_variates_statistics, st._payoff_statistics, st._payoff_statistics_with_cv = _O(), _O(), _O()
            st._control_variates_statistics.stats, st._payoff_statistics.stats = X.copy(), Y.copy()
            with np.errstate(all="ignore"):
                cv.compute_coefficients(st)
                res = np.asarray(st._payoff_statistics_with_cv.stats, dtype=float)
                want = np.array([ControlVariates.helper_compute_coefficients(
                    X[:, :, c], Y[:, c], np.array([p[c] for p in prices]) if vector_prices else np.array(prices)) for c in range(d)]).T
        except Exception as ex:
            fail("compute_coefficients raises", inp, repr(ex))
            continue
        if res.shape != (n, d) or not np.allclose(res, want, rtol=1e-12, atol=1e-12):
            fail("a column of the adjusted array is not the kernel applied to that component's columns", inp,
                 {"got": res.tolist(), "want": want.tolist()})
        elif not np.array_equal(st._payoff_statistics.stats, Y):
            fail("compute_coefficients changes the raw payoff sample", inp, {"raw after": np.asarray(st._payoff_statistics.stats).tolist()})
