"""Source-derived tie for C13 (grids are well formed, refinement nests them): which functions of rpylib/grid/spatial.py and
rpylib/grid/grid.py are translated to Lean on every run, and the directed search used when an obligation breaks.

Translated (lean/RpylibModel/Generated/SrcC13.lean), obligations in lean/RpylibModel/ProofsGen/SrcC13.lean:
  CTMCGrid.refine                      whole method; `self.axes`, `self.h`, `self.origin_coordinate` are mutable attributes
                                       (`stores`): the definition returns their final values.  `self.middle` is a function
                                       parameter (it is overridden by CTMCGridProbabilityStep and dispatched on the type).
                                       `origin_coordinate` is read as one integer: `Coordinates.__imul__` multiplies every
                                       component (the two `__imul__` below are translated and proved separately).
  CTMCGrid.middle (tuple / float)      the cell boundary of every grid but the probability-step grid
  CTMCGrid.left_point / right_point    int, Coordinate1D (`coordinate.value` is the parameter `c`) and CoordinateND
  Coordinate1D.__imul__, CoordinateND.__imul__     the in-place doubling of the origin coordinate
  CTMCUniformGrid.create_from_fixed_nb_of_points   the axis arithmetic and the arguments handed to CTMCGrid.__init__
  CTMCUniformGrid.__init__             everything after the root search: `compute_truncation(..)` is the parameter `lr`,
                                       `model.dimension_model()` the parameter `dim`; `np.linspace` is Rpylib.Py.linspace
                                       (numpy's documented semantics, compared with numpy on every run by c13.linspace.model);
                                       the result is the triple (h, origin_coordinate, axes) handed to CTMCGrid.__init__
  CTMCCredit.__init__ (two views)      the 7-point axis of the 1-d branch, the 7/9-point axis of one threshold in the n-d branch
                                       (`block` views: the statements from `eps = ..` to `axis = np.array(..)` as functions of
                                       l, a, h, r[, symmetric_grid])
Not translated: compute_truncation / compute_truncation_helper / compute_left_axis / compute_right_axis /
CTMCGridProbabilityStep.middle (scipy root searches, while loops with try/except), the geometric constructors (np.geomspace),
CTMCGrid.__init__ (super().__init__, walrus, Coordinates objects), `outside` (`any`).
"""
from __future__ import annotations

from harness.py2lean import Fn, Unit, INT, RAT, BOOL

LR, LLR, LI = "List Rat", "List (List Rat)", "List Int"

_AXES = {"axes": LLR}

UNITS = [
    Unit("rpylib/grid/spatial.py", [
        Fn("CTMCGrid.middle@float", lean_name="CTMCGrid_middle_float", params={"xi": RAT, "xip": RAT}, ret=RAT),
        Fn("CTMCGrid.middle", lean_name="CTMCGrid_middle_tuple", params={"xi": LR, "xip": LR}, ret=LR),
        Fn("CTMCGrid.left_point", params={"coordinate": INT}, ret=RAT, self_attrs=_AXES),
        Fn("CTMCGrid.left_point@Coordinate1D", lean_name="CTMCGrid_left_point_1d", params={"coordinate": "obj"}, ret=RAT,
           self_attrs=_AXES, const_exprs={"coordinate.value": ("c", INT)}),
        Fn("CTMCGrid.left_point@CoordinateND", lean_name="CTMCGrid_left_point_nd", params={"coordinate": LI}, ret=LR,
           self_attrs=_AXES),
        Fn("CTMCGrid.right_point", params={"coordinate": INT}, ret=RAT, self_attrs=_AXES),
        Fn("CTMCGrid.right_point@Coordinate1D", lean_name="CTMCGrid_right_point_1d", params={"coordinate": "obj"}, ret=RAT,
           self_attrs=_AXES, const_exprs={"coordinate.value": ("c", INT)}),
        Fn("CTMCGrid.right_point@CoordinateND", lean_name="CTMCGrid_right_point_nd", params={"coordinate": LI}, ret=LR,
           self_attrs=_AXES),
        Fn("CTMCGrid.refine", stores={"axes": LLR, "h": RAT, "origin_coordinate": INT},
           opaque_fns={"self.middle": ("middle", [RAT, RAT], RAT)}),
        Fn("CTMCUniformGrid.create_from_fixed_nb_of_points", lean_name="CTMCUniformGrid_fixed",
           params={"h": RAT, "nb_of_points": INT, "dimension": INT}, ret=f"Rat × Int × {LLR}",
           ctor=["h", "origin_coordinate", "axes"]),
        Fn("CTMCUniformGrid.__init__", lean_name="CTMCUniformGrid_init",
           params={"h": RAT, "model": "obj", "truncation_probability": RAT}, ret=f"Rat × Int × {LLR}",
           ctor=["h", "origin_coordinate", "axes"], err="((0 : Rat), ((-1) : Int), ([] : List (List Rat)))",
           const_calls={"compute_truncation(model=model,h=h,truncation_probability=truncation_probability)": ("lr", "Rat × Rat"),
                        "model.dimension_model()": ("dim", INT)}),
        Fn("CTMCCredit.__init__#axis1d", lean_name="CTMCCredit_axis_1d", block=("eps =", "axis = np.array(", 0),
           result="axis", params={"l": RAT, "level_a": RAT, "h": RAT, "r": RAT}, ret=LR),
        Fn("CTMCCredit.__init__#axisnd", lean_name="CTMCCredit_axis_nd", block=("eps =", "axis = np.array(", 1),
           result="axis", params={"l": RAT, "a": RAT, "h": RAT, "r": RAT, "symmetric_grid": BOOL}, ret=LR),
    ]),
    Unit("rpylib/grid/grid.py", [
        Fn("Coordinate1D.__imul__", lean_name="Coordinate1D_imul", params={"other": INT}, stores={"value": INT}),
        Fn("CoordinateND.__imul__", lean_name="CoordinateND_imul", params={"other": INT}, stores={"value": LI}),
    ]),
]


# ---------------------------------------------------------------------------------------------------------------------
# directed search on the REAL implementation, run when an obligation of ProofsGen/SrcC13.lean no longer checks.  Every
# identity below is C13's own (true of every correct implementation): nesting at twice the index, exactly one new state
# strictly inside each old gap and equal to the grid's own cell boundary, h halved, origin doubled, bounds unchanged,
# strict monotonicity; middle strictly inside / +-h/2 next to 0; coordinates multiplied componentwise; the fixed-size
# constructor returns well-formed axes.  Inputs: the numeric literals of the current source (+ neighbours) as axis
# lengths, indices, states, steps, and a fixed structured family.  All inputs are dyadic: every float operation is exact.
def search(ctx, lits):
    import copy
    import numpy as np
    from rpylib.grid.spatial import CTMCGrid, CTMCUniformGrid
    from rpylib.grid.grid import Coordinates, CoordinateND, Coordinate1D

    found = [0]

    def fail(probe, inp, name, detail):
        ctx.fail("oracle", "c13.src.search." + probe, inp, {"name": name, "detail": detail})
        found[0] += 1

    def dy(x):                      # nearest dyadic with 10 fractional bits, bounded
        return round(float(x) * 1024) / 1024

    ints = sorted({int(v) for l in lits if abs(l) < 10 ** 6 and float(l) == int(l) for v in (l - 1, l, l + 1, 2 * l, 2 * l + 1)})
    reals = sorted({dy(v) for l in lits if abs(l) < 10 ** 6 for v in (l, -l, l / 2, l + 2.0 ** -10, l - 2.0 ** -10)})
    lengths = sorted({n for n in ints if 1 <= n <= 130} | set(range(1, 13)))
    steps = sorted({abs(r) for r in reals if 2.0 ** -8 <= abs(r) <= 64} | {0.25, 0.5, 1.0, 3.0})[:12]

    # ---- middle ------------------------------------------------------------------------------------------------------
    base = CTMCGrid(h=1.0, origin_coordinate=1, axes=[np.array([-1.0, 0.0, 1.0])])
    pts = sorted(set(reals) | {-8.0, -3.0, -1.0, -0.5, 0.0, 0.25, 0.5, 1.0, 2.0, 7.25, 100.0})[:60]
    for a in pts:
        for b in pts:
            if not a < b:
                continue
            inp = {"function": "CTMCGrid.middle", "xi": a, "xip": b}
            ctx.count("c13.src.search", inp, nontrivial=False)
            try:
                m = float(base.middle(float(a), float(b)))
                mt = [float(v) for v in base.middle((float(a), float(a)), (float(b), float(b)))]
            except Exception as e:
                fail("middle", inp, "middle raised", repr(e))
                continue
            if not a < m < b:
                fail("middle", inp, "the cell boundary is not strictly inside the gap", {"middle": m})
            if mt != [m, m]:
                fail("middle", inp, "tuple and float dispatch of middle disagree", {"float": m, "tuple": mt})
            if found[0] > 20:
                return
    for h in steps:
        inp = {"function": "CTMCGrid.middle", "h": h}
        if float(base.middle(-h, 0.0)) != -h / 2 or float(base.middle(0.0, h)) != h / 2:
            fail("middle", inp, "the cell boundaries next to the origin are not -h/2, +h/2",
                 {"middle(-h,0)": float(base.middle(-h, 0.0)), "middle(0,h)": float(base.middle(0.0, h))})

    # ---- coordinates ---------------------------------------------------------------------------------------------------
    for v in sorted(set(ints) | set(range(-3, 8)))[:80]:
        for m_ in (2, 3, -1, 0):
            c1 = Coordinates(v)
            c1 *= m_
            cn = Coordinates([v, v + 1, -v])
            cn *= m_
            inp = {"function": "Coordinates.__imul__", "value": v, "other": m_}
            ctx.count("c13.src.search", inp, nontrivial=False)
            if c1.value != v * m_ or tuple(cn.value) != (v * m_, (v + 1) * m_, -v * m_):
                fail("imul", inp, "in-place multiplication of a coordinate is not componentwise",
                     {"1d": c1.value, "nd": list(cn.value)})

    # ---- refine ----------------------------------------------------------------------------------------------------------
    def axes_family():
        for n in lengths:
            for h in steps[:4]:
                yield [(k - n // 2) * h for k in range(n)], h, n // 2          # uniform, origin in the middle
            yield [float(k * k) - 5.0 for k in range(n)], 1.0, 0                # non-uniform
        rs = sorted(set(reals))
        for i in range(0, max(0, len(rs) - 2)):
            yield rs[i:i + 7], 1.0, 1                                           # the literals themselves as states
            yield sorted(set(rs[i:i + 3] + [-1.0, 0.0, 1.0])), 1.0, 1

    def check_refine(axes, h, o, tag):
        d = len(axes)
        g = CTMCGrid(h=h, origin_coordinate=o, axes=[np.array(a, dtype=float) for a in axes])
        if tag == "shared":
            g = CTMCGrid(h=h, origin_coordinate=o, axes=[np.array(axes[0], dtype=float)] * d)
        old = [[float(x) for x in a] for a in g.axes]
        trunc = [tuple(float(v) for v in t) for t in g.truncations]
        for step in range(1, 4):
            inp = {"function": "CTMCGrid.refine", "axes": old, "h": float(g.h), "origin": [int(c) for c in g.origin_coordinate],
                   "storage": tag, "refinement": step}
            ctx.count("c13.src.search", inp, nontrivial=False)
            h0, o0 = float(g.h), [int(c) for c in g.origin_coordinate]
            mids = [[float(g.middle(float(a), float(b))) for a, b in zip(ax, ax[1:])] for ax in old]
            bound = [[(float(g.middle(float(ax[i]), float(g.right_point(i)))) if d == 1 else None) for i in range(len(ax) - 1)] for ax in old]
            try:
                g.refine()
            except Exception as e:
                fail("refine", inp, "refine raised", repr(e))
                return
            new = [[float(x) for x in a] for a in g.axes]
            bad = None
            if len(new) != d:
                bad = "the number of axes changed"
            for k in range(min(d, len(new))):
                a, b = old[k], new[k]
                if bad:
                    break
                if len(b) != 2 * len(a) - 1:
                    bad = f"axis {k}: {len(b)} states after refining {len(a)} states (expected {2 * len(a) - 1})"
                elif b[0::2] != a:
                    bad = f"axis {k}: the old states are not kept at twice their index"
                elif any(not (a[i] < b[2 * i + 1] < a[i + 1]) for i in range(len(a) - 1) if a[i] < a[i + 1]):
                    bad = f"axis {k}: a new state is not strictly inside its gap"
                elif b[1::2] != mids[k]:
                    bad = f"axis {k}: the new states are not the grid's own cell boundaries middle(x_i, x_i+1)"
                elif d == 1 and b[1::2] != bound[k]:
                    bad = f"axis {k}: the new states are not middle(x_i, right_point(i))"
                elif (b[0], b[-1]) != (a[0], a[-1]) or [tuple(float(v) for v in t) for t in g.truncations] != trunc:
                    bad = f"axis {k}: the truncation bounds changed"
                elif all(x < y for x, y in zip(a, a[1:])) and not all(x < y for x, y in zip(b, b[1:])):
                    bad = f"axis {k}: not strictly increasing after refinement"
            if not bad and float(g.h) != h0 / 2:
                bad = f"h is {float(g.h)} after refinement, expected {h0 / 2}"
            if not bad and [int(c) for c in g.origin_coordinate] != [2 * c for c in o0]:
                bad = f"origin coordinate {[int(c) for c in g.origin_coordinate]} after refinement, expected {[2 * c for c in o0]}"
            if bad:
                fail("refine", inp, bad, {"refined_axes": new, "h": float(g.h), "origin": [int(c) for c in g.origin_coordinate]})
                return
            old = new

    fam = list(axes_family())
    for ax, h, o in fam:
        check_refine([ax], h, o, "own")
        if found[0] > 20:
            return
    for i in range(0, len(fam) - 2, 3):                      # dimensions 2 and 3, per-axis and shared storage
        (a1, h, o), (a2, _, _), (a3, _, _) = fam[i], fam[i + 1], fam[i + 2]
        check_refine([a1, a2], h, o, "own")
        check_refine([a1, a2, a3], h, o, "own")
        check_refine([a1, a1, a1], h, o, "shared")
        if found[0] > 20:
            return

    # ---- neighbours --------------------------------------------------------------------------------------------------------
    for ax, h, o in fam[:200]:
        g = CTMCGrid(h=h, origin_coordinate=o, axes=[np.array(ax, dtype=float), np.array(ax[::-1], dtype=float)])
        n = len(ax)
        for c in range(n):
            inp = {"function": "CTMCGrid.left_point/right_point", "axis": ax, "coordinate": c}
            ctx.count("c13.src.search", inp, nontrivial=False)
            want_l, want_r = ax[max(0, c - 1)], ax[min(n - 1, c + 1)]
            try:
                got = (float(g.left_point(c)), float(g.left_point(Coordinate1D(c))), float(g.left_point(CoordinateND([c, 0]))[0]),
                       float(g.right_point(c)), float(g.right_point(Coordinate1D(c))), float(g.right_point(CoordinateND([c, 0]))[0]))
            except Exception as e:
                fail("neighbours", inp, "left_point / right_point raised", repr(e))
                continue
            if got != (want_l, want_l, want_l, want_r, want_r, want_r):
                fail("neighbours", inp, "left_point / right_point is not the neighbouring state (clamped at the ends)",
                     {"left(int,1d,nd)": got[:3], "right(int,1d,nd)": got[3:], "expected": [want_l, want_r]})
            if found[0] > 20:
                return

    # ---- fixed-size uniform constructor --------------------------------------------------------------------------------------
    for nb in sorted({n for n in ints if 2 <= n <= 400} | set(range(2, 14))):
        for h in steps[:6]:
            for dim in (1, 2, 3):
                inp = {"function": "CTMCUniformGrid.create_from_fixed_nb_of_points", "h": h, "nb_of_points": nb, "dimension": dim}
                ctx.count("c13.src.search", inp, nontrivial=False)
                try:
                    g = CTMCUniformGrid.create_from_fixed_nb_of_points(h=h, nb_of_points=nb, dimension=dim)
                    axes = [[float(x) for x in a] for a in g.axes]
                    os_ = [int(c) for c in g.origin_coordinate]
                except Exception as e:
                    fail("fixed", inp, "the constructor raised", repr(e))
                    continue
                bad = None
                if len(axes) != dim or len(os_) != dim or float(g.h) != h:
                    bad = "wrong number of axes / h"
                for a, o in zip(axes, os_):
                    if bad:
                        break
                    if not all(x < y for x, y in zip(a, a[1:])):
                        bad = "not strictly increasing"
                    elif not (1 <= o < len(a) - 1) or a[o] != 0.0 or a[o - 1] != -h or a[o + 1] != h:
                        bad = "the origin index does not hold 0 with neighbours -h, +h"
                    elif [tuple(float(v) for v in t) for t in g.truncations] != [(x[0], x[-1]) for x in axes]:
                        bad = "the reported truncations are not the end points"
                if bad:
                    fail("fixed", inp, bad, {"axes": axes, "origin": os_, "h": float(g.h)})
                if found[0] > 20:
                    return

    # ---- CTMCUniformGrid.__init__ and CTMCCredit.__init__ with explicit truncation bounds -------------------------------------
    # only the root search `compute_truncation` is replaced (module attribute patched for the duration of the call)
    from unittest import mock
    import rpylib.grid.spatial as spatial

    class _Dim:
        def __init__(self, d):
            self.d = d

        def dimension_model(self):
            return self.d

    def with_bounds(l, r, make):
        with mock.patch.object(spatial, "compute_truncation", lambda model, h, truncation_probability=0.99999: (l, r)):
            return make()

    counts = sorted({n for n in ints if 2 <= n <= 300} | {2, 3, 4, 7})[:14]
    for h in steps[:5]:
        for nl in counts:
            for nr in counts[:6]:
                for dl, dr in ((0.0, 0.0), (0.25, 0.5)):            # bounds on / off the lattice of h
                    l, r = -(nl + dl) * h, (nr + dr) * h
                    for dim in (1, 2):
                        inp = {"function": "CTMCUniformGrid.__init__", "l": l, "r": r, "h": h, "dimension": dim}
                        ctx.count("c13.src.search", inp, nontrivial=False)
                        try:
                            g = with_bounds(l, r, lambda: spatial.CTMCUniformGrid(h=h, model=_Dim(dim), truncation_probability=0.5))
                            axes = [[float(x) for x in a] for a in g.axes]
                            os_ = [int(c) for c in g.origin_coordinate]
                        except Exception as e:
                            fail("uniform", inp, "the constructor raised", repr(e))
                            continue
                        bad = None
                        if len(axes) != dim or float(g.h) != h:
                            bad = "wrong number of axes / h"
                        for a, o in zip(axes, os_):
                            if bad:
                                break
                            if not all(x < y for x, y in zip(a, a[1:])):
                                bad = "not strictly increasing"
                            elif not (1 <= o < len(a) - 1) or a[o] != 0.0 or a[o - 1] != -h or a[o + 1] != h:
                                bad = "the origin index does not hold 0 with neighbours -h, +h"
                            elif (a[0], a[-1]) != (l, r) or [tuple(float(v) for v in t) for t in g.truncations] != [(l, r)] * dim:
                                bad = "the axis does not end at the truncation bounds / the reported truncations differ"
                        if bad:
                            fail("uniform", inp, bad, {"axes": axes, "origin": os_, "h": float(g.h)})
                        if found[0] > 20:
                            return

    levels = sorted({-abs(x) for x in reals if 0 < abs(x) < 50} | {-2.0, -1.5, -0.75, -3.25})[:14]
    for h in steps[:5]:
        for a in levels:
            if not a < -h:
                continue
            for l in (a - 0.25, a - 1.0, 2 * a - 8.0):
                for r in (h + 0.5, 4.0 - 2 * a):
                    for dim, sym in ((1, True), (2, False), (2, True), (3, True)):
                        lev = a if dim == 1 else [a] + [a - 0.125 * k for k in range(1, dim)]
                        lev_list = [a] if dim == 1 else lev
                        if min(lev_list) <= l:
                            continue
                        inp = {"function": "CTMCCredit.__init__", "l": l, "r": r, "h": h, "level_a": lev, "symmetric_grid": sym}
                        ctx.count("c13.src.search", inp, nontrivial=False)
                        try:
                            g = with_bounds(l, r, lambda: spatial.CTMCCredit(h=h, level_a=lev, model=_Dim(dim), symmetric_grid=sym))
                            axes = [[float(x) for x in ax] for ax in g.axes]
                            os_ = [int(c) for c in g.origin_coordinate]
                        except Exception as e:
                            fail("credit", inp, "the constructor raised", repr(e))
                            continue
                        bad = None
                        if len(axes) != dim or float(g.h) != h:
                            bad = "wrong number of axes / h"
                        for ax, o, a_k in zip(axes, os_, lev_list):
                            if bad:
                                break
                            mirrored_fits = len(ax) != 9 or ax[7] < r          # the 9-point axis needs its mirrored block below r
                            if not mirrored_fits:
                                continue
                            if not all(x < y for x, y in zip(ax, ax[1:])):
                                bad = "not strictly increasing"
                            elif o != 4 or ax[4] != 0.0 or ax[3] != -h or ax[5] != h:
                                bad = "the origin index 4 does not hold 0 with neighbours -h, +h"
                            elif (ax[0], ax[-1]) != (l, r):
                                bad = "the axis does not end at the truncation bounds"
                            elif not (ax[1] < a_k < ax[2]) or float(g.middle(ax[1], ax[2])) != a_k:
                                bad = "the threshold is not the cell boundary between the 2nd and the 3rd state"
                        if bad:
                            fail("credit", inp, bad, {"axes": axes, "origin": os_, "h": float(g.h)})
                        if found[0] > 20:
                            return
