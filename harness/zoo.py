"""Structured generators built from the repository's own factories: model families with parameters drawn from
documented boxes (every branch of the CGMY activity index), the six grid constructors, copulas."""
from __future__ import annotations

import math
import numpy as np

from rpylib.model.levymodel.levymodel import LevyMeasure
from rpylib.model.model import ModelType
from rpylib.model.utils import (create_levy_model, create_exponential_of_levy_model, create_clayton_copula,
                                create_independent_copula, create_dependent_copula, create_levy_copula_model)
from rpylib.grid.spatial import (CTMCGrid, CTMCUniformGrid, CTMCGridGeometric, CTMCGridProbabilityStep, CTMCCredit)

FAMILIES = ["hem", "merton", "vg", "cgmy"]
CGMY_Y_BRANCHES = [-0.5, 0.0, 0.5, 1.0, 1.5]   # y<0, y=0, 0<y<1, y=1, 1<y<2


def draw_params(rng, family, y_branch=None):
    """parameter draw inside a documented box; returns (family, kwargs)"""
    u = rng.uniform
    if family == "hem":
        return dict(sigma=round(u(0.0, 0.3), 3), p=round(u(0.2, 0.8), 3), eta1=round(u(5, 40), 2),
                    eta2=round(u(5, 40), 2), intensity=round(u(0.5, 8), 2))
    if family == "merton":
        return dict(sigma=round(u(0.0, 0.3), 3), sigma_j=round(u(0.03, 0.2), 3), mu_j=round(u(0.0, 0.1), 3),
                    intensity=round(u(0.5, 8), 2))
    if family == "vg":
        return dict(sigma=round(u(0.08, 0.3), 3), nu=round(u(0.03, 0.4), 3), theta=round(u(-0.2, 0.2), 3))
    if family == "cgmy":
        if y_branch is None:
            y_branch = rng.choice(CGMY_Y_BRANCHES)
        y = y_branch
        if y not in (0.0, 1.0):
            y = round(y + u(-0.3, 0.3), 2)
        return dict(c=round(u(0.2, 2.0), 2), g=round(u(5, 25), 1), m=round(u(5, 25), 1), y=y)
    raise ValueError(family)


_TYPES = {"hem": ModelType.HEM, "merton": ModelType.MERTON, "vg": ModelType.VG, "cgmy": ModelType.CGMY,
          "bs": ModelType.BLACKSCHOLES}


REINIT = "__reinit__"     # marker inside a params dict: build the model, then rebuild it through `reinitialised`


def make_levy(family, params):
    params = dict(params)
    re_ = params.pop(REINIT, False)
    m = create_levy_model(_TYPES[family])(**params)
    return reinitialised(m, family, params) if re_ else m


def make_exp(family, params, spot=100.0, r=0.02, d=0.0):
    params = dict(params)
    re_ = params.pop(REINIT, False)
    m = create_exponential_of_levy_model(_TYPES[family])(spot=spot, r=r, d=d, **params)
    return reinitialised(m, family, params) if re_ else m


def reinitialised(model, family, params):
    """The same model reached through another construction history, the way calibration reaches it (model/utils.py: deepcopy
    of the parameter object, attribute assignments, `initialisation()`, then `type(model)(..., parameters=obj)`): the
    parameter object is CONSTRUCTED with other legal values (so that anything computed once in `__init__` holds those), every
    primary parameter is then assigned its target value one at a time with `initialisation()` after each assignment, and the
    model is rebuilt from that object.  The result must be indistinguishable from the model constructed directly with the
    target values; checks use it as a second 'history' of every model they examine."""
    import copy
    import random as _random
    from rpylib.model.levymodel.exponentialoflevymodel import ExponentialOfLevyModel
    lm = model.levy_model if isinstance(model, ExponentialOfLevyModel) else model
    if not hasattr(lm, "parameters"):        # Black-Scholes keeps no parameter object on its Lévy model
        return model
    if family == "bs":
        names, other_kw = ["sigma"], {"sigma": 0.2 if getattr(lm.parameters, "sigma", None) != 0.2 else 0.3}
    else:
        y_branch = None
        if family == "cgmy":            # stay in the same activity branch: the constructor may fix things per branch
            y = float(lm.parameters.y)
            y_branch = 0.0 if y == 0.0 else 1.0 if y == 1.0 else -0.5 if y < 0 else 0.5 if y < 1 else 1.5
        other_kw = draw_params(_random.Random(len(params) + 1), family, y_branch)
        names = sorted(other_kw)
    target = {n: getattr(lm.parameters, n) for n in names}
    for n in names:                          # the other history must really start elsewhere
        if other_kw[n] == target[n] and n != "y":
            other_kw[n] = other_kw[n] * 1.5 if other_kw[n] else 0.1
    try:
        other = create_levy_model(_TYPES[family])(**other_kw)
        p = copy.deepcopy(other.parameters)
    except Exception:                        # a constraint of the family refused the other values: start from a copy
        p = copy.deepcopy(lm.parameters)
    for n in names:
        setattr(p, n, target[n])
        p.initialisation()
    if isinstance(model, ExponentialOfLevyModel):
        return type(model)(spot=model.spot, r=model.r, d=model.d, parameters=p)
    return type(model)(parameters=p)


def model_stream(rng, n, families=FAMILIES):
    """n (family, params) pairs; first the defaults of each family, then every CGMY branch, then random draws"""
    out = [(f, {}) for f in families]
    if "cgmy" in families:
        out += [("cgmy", draw_params(rng, "cgmy", y)) for y in CGMY_Y_BRANCHES]
    while len(out) < n:
        f = rng.choice(families)
        out.append((f, draw_params(rng, f)))
    return out[:max(n, 1)]


GRID_KINDS = ["uniform", "fixed", "geometric", "geometric_bounds", "probstep", "credit"]


def make_grid(kind, model, h, rng=None, dimension=1, **kw):
    """the six constructors; returns (grid, description)"""
    if kind == "uniform":
        tp = kw.get("truncation_probability", 0.999)
        return CTMCUniformGrid(h=h, model=model, truncation_probability=tp), dict(kind=kind, h=h, tp=tp)
    if kind == "fixed":
        nb = kw.get("nb_of_points", 9)
        return (CTMCUniformGrid.create_from_fixed_nb_of_points(h=h, nb_of_points=nb, dimension=dimension),
                dict(kind=kind, h=h, nb=nb, dim=dimension))
    if kind == "geometric":
        nb = kw.get("nb", 4)
        tp = kw.get("truncation_probability", 0.999)
        return (CTMCGridGeometric(h=h, model=model, nb_of_points_on_each_side=nb, truncation_probability=tp),
                dict(kind=kind, h=h, nb=nb, tp=tp))
    if kind == "geometric_bounds":
        nb = kw.get("nb", 4)
        tr = kw.get("truncations", (-1.0, 1.5))
        return (CTMCGridGeometric.create_with_bounds(h=h, truncations=tr, dimension=dimension,
                                                     nb_of_points_on_each_side=nb),
                dict(kind=kind, h=h, nb=nb, tr=list(tr), dim=dimension))
    if kind == "probstep":
        mps = kw.get("minimum_probability_step", 0.05)
        return (CTMCGridProbabilityStep(h=h, model=model, minimum_probability_step=mps, dimension=dimension),
                dict(kind=kind, h=h, mps=mps))
    if kind == "credit":
        a = kw.get("level_a", -0.3)
        sym = kw.get("symmetric_grid", True)
        return CTMCCredit(h=h, level_a=a, model=model, symmetric_grid=sym), dict(kind=kind, h=h, a=a, sym=sym)
    raise ValueError(kind)


COPULAS = ["clayton", "independent", "dependent"]


def make_copula(name, theta=0.7, eta=0.3):
    if name == "clayton":
        return create_clayton_copula(theta=theta, eta=eta)
    if name == "independent":
        return create_independent_copula()
    return create_dependent_copula()


def make_copula_model(margins, copula):
    return create_levy_copula_model(models=margins, copula=copula)


# ------------------------------------------------------------------------------------------------ synthetic measure
class TableMeasure(LevyMeasure):
    """Piecewise-constant Lévy density with rational (dyadic) breakpoints and heights: density `heights[i]` on
    (knots[i], knots[i+1]); 0 elsewhere. Its integrals are computed exactly in `fractions.Fraction` and returned as
    floats (exactly representable when knots/heights are small dyadics), so that grid / sampler / coupling / drift
    logic can be compared with the Lean model exactly, independently of special functions."""

    def __init__(self, knots, heights):
        from fractions import Fraction
        self.knots = [Fraction(k) for k in knots]
        self.heights = [Fraction(h) for h in heights]
        assert len(self.knots) == len(self.heights) + 1
        assert all(a < b for a, b in zip(self.knots, self.knots[1:]))

    def __call__(self, x):
        for k0, k1, h in zip(self.knots, self.knots[1:], self.heights):
            if k0 < x < k1:
                return float(h)
        return 0.0

    def jump_of_finite_activity(self):
        return True

    def jump_of_finite_variation(self):
        return True

    def finite_first_moment(self):
        return True

    def blumenthal_getoor_index(self):
        return 0.0

    def _exact(self, a, b, n):
        from fractions import Fraction
        if a > b:
            raise ValueError("Expected a<b when integrating the levy measure")
        def clip(x):
            if math.isinf(x):
                return self.knots[0] if x < 0 else self.knots[-1]
            return min(max(Fraction(x), self.knots[0]), self.knots[-1])
        lo, hi = clip(a), clip(b)
        tot = Fraction(0)
        for k0, k1, h in zip(self.knots, self.knots[1:], self.heights):
            x0, x1 = max(k0, lo), min(k1, hi)
            if x0 < x1:
                tot += h * (x1 ** (n + 1) - x0 ** (n + 1)) / (n + 1)
        return tot

    def integrate(self, a, b):
        return float(self._exact(a, b, 0))

    def integrate_against_x(self, a, b):
        return float(self._exact(a, b, 1))

    def integrate_against_xx(self, a, b):
        return float(self._exact(a, b, 2))

    def integrate_against_xn(self, a, b, n):
        return float(self._exact(a, b, n))


def axis_list(grid):
    return [[float(x) for x in ax] for ax in grid.axes]
