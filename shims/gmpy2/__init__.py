"""Offline stand-in for gmpy2 (not installed in the sandbox). Only `qdiv` is used by rpylib
(tools/generic.py: exact rational division in lazy_indices_product)."""
from fractions import Fraction


def qdiv(x, y=1):
    return Fraction(x) / Fraction(y)
