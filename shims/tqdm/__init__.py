"""Offline stand-in for tqdm (not installed in the sandbox): identity on the iterable."""


def tqdm(iterable=None, *args, **kwargs):
    return iterable
